#!/bin/bash
# seedtest.sh <patch> <prop> [<prop>...]: apply a seeded change to /repo, run the checks, undo it.
patch="$1"; shift
git -C /repo apply "$patch" || { echo "patch does not apply"; exit 9; }
for p in "$@"; do
  python3 /verif/tools/check.py "$p" --tier quick > /tmp/seedtest_$p.out 2>&1
  echo "== $p rc=$? $(grep -c VIOLATION /tmp/seedtest_$p.out) violations"
  grep -E "obligation failed|UNDECIDED|^OK" /tmp/seedtest_$p.out | head -6
done
git -C /repo checkout -- .
git -C /repo status --short | head -3
