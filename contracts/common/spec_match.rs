// ===== SPEC: views of grep_matcher::Match / LineTerminator (spec accessors only) =====
impl Match {
    pub closed spec fn s(&self) -> int { self.start as int }
    pub closed spec fn e(&self) -> int { self.end as int }
    pub open spec fn wf(&self) -> bool { self.s() <= self.e() }
}

impl LineTerminator {
    pub closed spec fn crlf_view(&self) -> bool { self.0 is CRLF }
    pub closed spec fn byte_view(&self) -> u8 {
        match self.0 { LineTerminatorImp::Byte(b) => b, LineTerminatorImp::CRLF => 10u8 }
    }
    /// the byte sequence of this terminator
    pub open spec fn seq_view(&self) -> Seq<u8> {
        if self.crlf_view() { seq![13u8, 10u8] } else { seq![self.byte_view()] }
    }
    /// a CRLF terminator ends lines at the byte `\n`
    pub proof fn lemma_crlf_byte(&self)
        ensures self.crlf_view() ==> self.byte_view() == 10u8,
    {}
}

// `bytes[m]` for m: Match is only defined for m.start <= m.end <= len (std slice indexing panics otherwise)
impl vstd::std_specs::core::IndexSpecImpl<Match> for [u8] {
    open spec fn index_req(&self, index: &Match) -> bool {
        index.s() <= index.e() <= self@.len()
    }
}

// ASSUMPTION (T-std): `#[derive(PartialEq)]` on LineTerminatorImp is structural equality.
impl vstd::std_specs::cmp::PartialEqSpecImpl for LineTerminatorImp {
    open spec fn obeys_eq_spec() -> bool { true }
    open spec fn eq_spec(&self, other: &LineTerminatorImp) -> bool { *self == *other }
}

// ASSUMPTION (T-std): `#[derive(PartialEq)]` on LineTerminator is structural equality.
impl vstd::std_specs::cmp::PartialEqSpecImpl for LineTerminator {
    open spec fn obeys_eq_spec() -> bool { true }
    open spec fn eq_spec(&self, other: &LineTerminator) -> bool { *self == *other }
}

// the spec accessors are machine integers
pub broadcast proof fn lemma_match_range(m: Match)
    ensures 0 <= #[trigger] m.s() <= usize::MAX, 0 <= #[trigger] m.e() <= usize::MAX,
{}
