//! C01 / C13 / C19 through the real command line (PROCESS LEVEL, bounded enumeration, not a proof): the `rg`
//! binary built from /repo's working tree is run on small files with every combination of
//! {-i} x {-w, -x} x {-v} x {LF, --crlf, --null-data} x {-U}, one or two -e patterns, and its reported line
//! numbers (or, with -r, its printed lines) are compared with the property's statement computed with the
//! `regex` crate: a line is reported iff the pattern, under the requested options, matches in the line's
//! content with its terminator removed (under -U: iff the line is overlapped by one of the successive
//! matches over the whole input); -v reports the others; with -r every reported line is the regex library's
//! replace-all of that line.  This is the only check that sees crates/core/flags/hiargs.rs, the glue that
//! configures the matcher, searcher and printer from the flags.
use std::path::{Path, PathBuf};
use std::process::{Command, Stdio};

const SINGLE: &[&str] = &["a", "ab", "a+b", "^a", "b$", "a|b", "[ab]b", "a.b", "(a)(b)?", r"a\x00b", "a\nb"];
const PAIRS: &[(&str, &str)] = &[("(b)", "(a)"), ("(a)", "(b)"), ("a", "ab"), ("ab", "a"), ("^b", "a$")];

#[derive(Clone, Copy, Debug)]
struct Flags { i: bool, w: bool, x: bool, v: bool, term: u8 /* 0 LF, 1 crlf, 2 null-data */, multiline: bool }

fn oracle(pats: &[&str], f: Flags) -> Option<regex::bytes::Regex> {
    let wrapped: Vec<String> = pats.iter().map(|p| {
        if f.w { format!(r"\b{{start-half}}(?:{})\b{{end-half}}", p) } else if f.x { format!("^(?:{})$", p) } else { p.to_string() }
    }).collect();
    let joined = if wrapped.len() == 1 { wrapped[0].clone() } else { wrapped.iter().map(|w| format!("(?:{})", w)).collect::<Vec<_>>().join("|") };
    let mut b = regex::bytes::RegexBuilder::new(&joined);
    b.multi_line(true).unicode(true).case_insensitive(f.i).crlf(f.term == 1);
    if f.term == 2 { b.line_terminator(0); }
    b.build().ok()
}

fn lines_of(input: &[u8], t: u8) -> Vec<(usize, usize)> {
    let mut v = vec![];
    let mut s = 0;
    while s < input.len() {
        let e = input[s..].iter().position(|&b| b == t).map(|i| s + i + 1).unwrap_or(input.len());
        v.push((s, e));
        s = e;
    }
    v
}

/// the line numbers the property demands, or None when the combination is outside the compared domain
fn expected(re: &regex::bytes::Regex, input: &[u8], f: Flags) -> Option<Vec<u64>> {
    let t = if f.term == 2 { 0u8 } else { b'\n' };
    let ls = lines_of(input, t);
    let mut sel = vec![false; ls.len()];
    if f.multiline {
        for m in re.find_iter(input) {
            let (s, e) = (m.start(), m.end());
            for (i, &(ls_, le)) in ls.iter().enumerate() {
                let hit = if s < e { ls_ < e && s < le } else { ls_ <= s && (s < le || (s == le && le == input.len() && input[le - 1] != t)) };
                if hit { sel[i] = true; }
            }
        }
    } else {
        for (i, &(s, e)) in ls.iter().enumerate() {
            let mut c = &input[s..e];
            if c.ends_with(&[t]) { c = &c[..c.len() - 1]; }
            if f.term == 1 && c.ends_with(b"\r") { c = &c[..c.len() - 1]; }
            // without -U no match may contain the line terminator: such matches of the reference regex do not count
            sel[i] = re.find_iter(c).any(|m| !c[m.start()..m.end()].contains(&t));
            if re.find_iter(c).any(|m| c[m.start()..m.end()].contains(&t)) { return None; }
        }
    }
    Some(sel.iter().enumerate().filter(|(_, &b)| b != f.v).map(|(i, _)| i as u64 + 1).collect())
}

struct Out { status: i32, stdout: Vec<u8>, stderr: Vec<u8> }
fn rg(rg: &Path, dir: &Path, args: &[String]) -> Out {
    let o = Command::new(rg).args(args).current_dir(dir).stdin(Stdio::null()).output().expect("rg runs");
    Out { status: o.status.code().unwrap_or(-1), stdout: o.stdout, stderr: o.stderr }
}

fn flag_args(pats: &[&str], f: Flags) -> Vec<String> {
    let mut a: Vec<String> = vec!["-n".into(), "--no-heading".into(), "--color".into(), "never".into(), "-a".into(), "--no-config".into(), "-j1".into(), "--no-mmap".into()];
    if f.i { a.push("-i".into()); }
    if f.w { a.push("-w".into()); }
    if f.x { a.push("-x".into()); }
    if f.v { a.push("-v".into()); }
    if f.term == 1 { a.push("--crlf".into()); }
    if f.term == 2 { a.push("--null-data".into()); }
    if f.multiline { a.push("-U".into()); }
    for p in pats { a.push("-e".into()); a.push(p.to_string()); }
    a
}

fn check(rgbin: &Path, dir: &Path, file: &str, pats: &[&str], f: Flags, input: &[u8]) -> Option<String> {
    // the CLI rejects a pattern with a literal line terminator unless -U is given: not compared
    let t = if f.term == 2 { "\\x00" } else { "\n" };
    if !f.multiline && pats.iter().any(|p| p.contains(t) || (f.term != 2 && p.contains("\\x00") && false)) { return None; }
    if f.multiline && f.v { return None; } // the listed known finding of C13 lives here
    // what `^`, `$`, `.` and -x mean under --null-data is not documented (the regex keeps treating `\n` as the line
    // boundary for anchors while records end at NUL): not compared
    if f.term == 2 && (f.x || pats.iter().any(|p| p.contains('^') || p.contains('$') || p.contains('.'))) { return None; }
    let re = oracle(pats, f)?;
    let want = expected(&re, input, f)?;
    let mut args = flag_args(pats, f);
    args.push(file.to_string());
    let o = rg(rgbin, dir, &args);
    if o.status == 2 {
        // an error: acceptable only if the reference regex cannot be built either (never, here) -- report
        return Some(format!("rg fails: {}", String::from_utf8_lossy(&o.stderr).trim()));
    }
    let rt = if f.term == 2 { 0u8 } else { b'\n' };
    let mut got: Vec<u64> = vec![];
    for rec in o.stdout.split(|&b| b == rt) {
        // under -U a record may span lines: only records that start with `N:` or `N-` count
        let digits: Vec<u8> = rec.iter().cloned().take_while(|b| b.is_ascii_digit()).collect();
        if digits.is_empty() || rec.get(digits.len()) != Some(&b':') { continue; }
        got.push(String::from_utf8_lossy(&digits).parse().unwrap());
    }
    got.sort(); got.dedup();
    if got != want {
        return Some(format!("rg reports lines {:?}, the property demands {:?}", got, want));
    }
    if (o.status == 0) != !want.is_empty() {
        return Some(format!("exit status {} with {} reported lines", o.status, want.len()));
    }
    None
}

/// C19 through the CLI: `rg -N -r T -e P1 -e P2`: every printed line is the library's replace-all of a matching line
fn check_replace(rgbin: &Path, dir: &Path, file: &str, pats: &[&str], template: &str, input: &[u8]) -> Option<String> {
    let f = Flags { i: false, w: false, x: false, v: false, term: 0, multiline: false };
    let re = oracle(pats, f)?;
    let mut want: Vec<u8> = vec![];
    for (s, e) in lines_of(input, b'\n') {
        let mut c = &input[s..e];
        if c.ends_with(b"\n") { c = &c[..c.len() - 1]; }
        if re.is_match(c) { want.extend_from_slice(&re.replace_all(c, template.as_bytes())); want.push(b'\n'); }
    }
    let mut args: Vec<String> = vec!["-N".into(), "--no-heading".into(), "--color".into(), "never".into(), "-a".into(), "--no-config".into(), "-j1".into(), "-r".into(), template.into()];
    for p in pats { args.push("-e".into()); args.push(p.to_string()); }
    args.push(file.to_string());
    let o = rg(rgbin, dir, &args);
    if o.stdout != want {
        return Some(format!("rg -r {:?} prints {:?}, the regex library's replace-all of the matching lines is {:?}", template, String::from_utf8_lossy(&o.stdout), String::from_utf8_lossy(&want)));
    }
    None
}

fn units_inputs(units: &[&[u8]], max: usize) -> Vec<Vec<u8>> {
    let mut out: Vec<Vec<u8>> = vec![];
    let mut cur: Vec<Vec<u8>> = vec![vec![]];
    for _ in 0..max {
        let mut next = vec![];
        for w in &cur { for u in units { let mut v = w.clone(); v.extend_from_slice(u); next.push(v); } }
        out.extend(next.iter().cloned());
        cur = next;
    }
    out
}

fn main() {
    let repo = PathBuf::from(env!("VERIF_REPO"));
    let here = std::env::current_dir().unwrap();
    let target = PathBuf::from(std::env::var("VERIF_RG_TARGET").unwrap_or_else(|_| here.join("rg_target").to_string_lossy().into_owned()));
    let b = Command::new("cargo").args(["build", "--offline", "--quiet", "--manifest-path"]).arg(repo.join("Cargo.toml")).env("CARGO_TARGET_DIR", &target).output().expect("cargo runs");
    if !b.status.success() { println!("could not compile ripgrep: {}", String::from_utf8_lossy(&b.stderr)); std::process::exit(3); }
    let rgbin = target.join("debug").join("rg");
    let dir = here.join("scratch_cli");
    let _ = std::fs::remove_dir_all(&dir);
    std::fs::create_dir_all(&dir).unwrap();
    let maxu: usize = std::env::var("VERIF_CLI_UNITS").ok().and_then(|s| s.parse().ok()).unwrap_or(3);
    let survey = std::env::var("VERIF_CLI_ALL").is_ok();

    // work items: (pattern set index, flags)
    let mut sets: Vec<Vec<&str>> = SINGLE.iter().map(|p| vec![*p]).collect();
    sets.extend(PAIRS.iter().map(|(a, b)| vec![*a, *b]));
    let mut items: Vec<(usize, Flags)> = vec![];
    for (si, _) in sets.iter().enumerate() {
        for i in [false, true] { for b in 0..3 { for v in [false, true] { for term in 0..3u8 { for ml in [false, true] {
            items.push((si, Flags { i, w: b == 1, x: b == 2, v, term, multiline: ml }));
        }}}}}
    }
    let next = std::sync::atomic::AtomicUsize::new(0);
    let best: std::sync::Mutex<Option<(usize, String)>> = std::sync::Mutex::new(None);
    let threads = std::thread::available_parallelism().map(|x| x.get()).unwrap_or(4).min(16);
    std::thread::scope(|s| {
        for tid in 0..threads {
            let (items, sets, best, next, dir, rgbin) = (&items, &sets, &best, &next, &dir, &rgbin);
            s.spawn(move || {
                let file = format!("in{}.txt", tid);
                loop {
                    let k = next.fetch_add(1, std::sync::atomic::Ordering::SeqCst);
                    if k >= items.len() { break; }
                    if !survey { if let Some(ref b) = *best.lock().unwrap() { if b.0 < k { break; } } }
                    let (si, f) = items[k];
                    let units: Vec<&[u8]> = match f.term { 0 => vec![b"a", b"b", b"A", b" ", b"\n"], 1 => vec![b"a", b"b", b"\r\n", b"\n", b" "], _ => vec![b"a", b"b", b"\0", b"\n", b" "] };
                    for inp in units_inputs(&units, maxu) {
                        std::fs::write(dir.join(&file), &inp).unwrap();
                        if let Some(w) = check(rgbin, dir, &file, &sets[si], f, &inp) {
                            let msg = format!("FAILING CASE cli rg {} <file with {:?}>: {}", flag_args(&sets[si], f)[8..].join(" "), String::from_utf8_lossy(&inp), w);
                            if survey { println!("ALL {}", msg); break; }
                            let mut b = best.lock().unwrap();
                            if b.as_ref().map_or(true, |o| k < o.0) { *b = Some((k, msg)); }
                            break;
                        }
                        if f.term == 0 && !f.i && !f.w && !f.x && !f.v && !f.multiline && sets[si].iter().all(|p| !p.contains('\n') && !p.contains("x00")) {
                            for t in ["[$1|$2]", "$0$0", "${1}x"] {
                                if let Some(w) = check_replace(rgbin, dir, &file, &sets[si], t, &inp) {
                                    let msg = format!("FAILING CASE cli rg -r {:?} {} <file with {:?}>: {}", t, sets[si].iter().map(|p| format!("-e {:?}", p)).collect::<Vec<_>>().join(" "), String::from_utf8_lossy(&inp), w);
                                    if survey { println!("ALL {}", msg); break; }
                                    let mut b = best.lock().unwrap();
                                    if b.as_ref().map_or(true, |o| k < o.0) { *b = Some((k, msg)); }
                                    break;
                                }
                            }
                        }
                    }
                }
            });
        }
    });
    let _ = std::fs::remove_dir_all(&dir);
    match best.into_inner().unwrap() {
        Some((_, msg)) => { println!("{}", msg); println!("VERIF_REPLAY_CLI=1"); std::process::exit(1); }
        None => println!("cli twin units<={}: all cases agree", maxu),
    }
}
