// ===== TRUSTED (T-proc): the environment of crates/core/main.rs::run =====
// anyhow (external crate): an opaque error type
pub mod anyhow {
    #[derive(Debug)]
    pub struct Error { _p: () }
    pub type Result<T> = std::result::Result<T, Error>;
}

use std::process::ExitCode;
use crate::flags::{HiArgs, SearchMode};

#[verifier::external_type_specification]
#[verifier::external_body]
pub struct ExExitCode(std::process::ExitCode);

/// the numeric process status carried by an ExitCode
pub uninterp spec fn code_of(c: ExitCode) -> u8;

pub assume_specification[ <std::process::ExitCode as std::convert::From<u8>>::from ](v: u8) -> (r: ExitCode)
    ensures code_of(r) == v,
;

/// ghost truth about the finished run: at least one match was found (or one file listed)
pub uninterp spec fn g_matched() -> bool;
/// ghost: the non-fatal-error flag (messages::errored()) once all work is done; assumed stable
/// while the status is computed
pub uninterp spec fn g_errored() -> bool;

pub mod messages {
    use vstd::prelude::*;
    use crate::*;
    #[verifier::external_body]
    pub(crate) fn errored() -> (r: bool)
        ensures r == g_errored(),
    { unimplemented!() }
}

/// the status the property demands: 0 iff matched and (quiet or no error); else 2 iff an error occurred; else 1
pub open spec fn status(matched: bool, quiet: bool, errored: bool) -> u8 {
    if matched && (quiet || !errored) { 0u8 } else if errored { 2u8 } else { 1u8 }
}
