#!/usr/bin/env python3
"""Offline setup: nothing to fetch or build ahead of time; checks rebuild from /repo on every run.
Verifies that the verifiers are on PATH and warms Verus once."""
import os, shutil, subprocess, sys, tempfile
VERIF = os.path.dirname(os.path.dirname(os.path.abspath(__file__)))
os.makedirs(os.path.join(VERIF, 'build'), exist_ok=True)
os.makedirs(os.path.join(VERIF, 'evidence'), exist_ok=True)
ok = True
for t in ('verus', 'cargo-kani', 'cargo'):
    if shutil.which(t) is None:
        print('missing tool: %s' % t); ok = False
d = tempfile.mkdtemp(dir=os.path.join(VERIF, 'build'))
open(os.path.join(d, 'w.rs'), 'w').write('use vstd::prelude::*;\nverus!{ proof fn t() ensures 1 + 1 == 2int {} }\nfn main(){}\n')
r = subprocess.run(['verus', 'w.rs'], cwd=d, stdout=subprocess.PIPE, stderr=subprocess.STDOUT, text=True)
print(r.stdout.strip().split('\n')[-1])
shutil.rmtree(d, ignore_errors=True)
sys.exit(0 if ok and r.returncode == 0 else 1)
