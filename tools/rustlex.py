"""Minimal Rust lexer + item splitter, enough to cut items out of ripgrep's
source files by path without touching their text.

Nothing here rewrites source: it only computes byte spans.
"""
import re

IDENT = re.compile(r'[A-Za-z_][A-Za-z0-9_]*')


class LexError(Exception):
    pass


def mask(src):
    """Return a string of the same length as src where every byte inside a
    comment, string literal or char literal is replaced by a space (newlines
    are kept).  Brace/paren matching and keyword search run on the mask, spans
    are then applied to the original text."""
    out = list(src)
    i, n = 0, len(src)

    def blank(a, b):
        for k in range(a, b):
            if out[k] != '\n':
                out[k] = ' '

    while i < n:
        c = src[i]
        if c == '/' and i + 1 < n and src[i + 1] == '/':
            j = src.find('\n', i)
            if j < 0:
                j = n
            blank(i, j)
            i = j
        elif c == '/' and i + 1 < n and src[i + 1] == '*':
            depth, j = 1, i + 2
            while j < n and depth:
                if src.startswith('/*', j):
                    depth += 1
                    j += 2
                elif src.startswith('*/', j):
                    depth -= 1
                    j += 2
                else:
                    j += 1
            if depth:
                raise LexError('unterminated block comment')
            blank(i, j)
            i = j
        elif c == '"' or (c in 'br' and _is_str_start(src, i)):
            j = _skip_string(src, i)
            # keep the delimiters' positions blank too: no token of interest
            blank(i, j)
            i = j
        elif c == "'":
            j = _skip_char_or_lifetime(src, i)
            if j < 0:  # lifetime: leave as is
                m = IDENT.match(src, i + 1)
                i = m.end() if m else i + 1
            else:
                blank(i, j)
                i = j
        elif c.isalpha() or c == '_':
            m = IDENT.match(src, i)
            i = m.end()
        else:
            i += 1
    return ''.join(out)


def _is_str_start(src, i):
    # b"..", r"..", r#".."#, br"..", br#".."#, b'x'
    m = re.match(r'(b?r#*"|b")', src[i:i + 12])
    if m:
        # must not be the tail of an identifier
        if i > 0 and (src[i - 1].isalnum() or src[i - 1] == '_'):
            return False
        return True
    return False


def _skip_string(src, i):
    n = len(src)
    m = re.match(r'b?r(#*)"', src[i:i + 12])
    if m:
        hashes = m.group(1)
        end = src.find('"' + hashes, i + m.end())
        if end < 0:
            raise LexError('unterminated raw string')
        return end + 1 + len(hashes)
    j = i + (2 if src[i] == 'b' else 1)
    while j < n:
        if src[j] == '\\':
            j += 2
        elif src[j] == '"':
            return j + 1
        else:
            j += 1
    raise LexError('unterminated string')


def _skip_char_or_lifetime(src, i):
    """src[i] == "'".  Return end index of a char literal, or -1 if this is a
    lifetime."""
    n = len(src)
    if i + 1 >= n:
        return -1
    if src[i + 1] == '\\':
        j = i + 2
        # escape: \n \' \\ \x41 \u{..}
        if j < n and src[j] == 'u':
            k = src.find('}', j)
            j = k + 1
        elif j < n and src[j] == 'x':
            j += 3
        else:
            j += 1
        if j < n and src[j] == "'":
            return j + 1
        raise LexError('bad char literal at %d' % i)
    # 'X' (X may be multi-byte in python str => one char)
    if i + 2 < n and src[i + 2] == "'" and src[i + 1] != "'":
        return i + 3
    return -1


OPEN = {'(': ')', '[': ']', '{': '}'}
CLOSE = {')', ']', '}'}


def match_close(msk, i):
    """msk[i] is an opening bracket; return index of its closing bracket."""
    want = []
    n = len(msk)
    j = i
    while j < n:
        c = msk[j]
        if c in OPEN:
            want.append(OPEN[c])
        elif c in CLOSE:
            if not want or want[-1] != c:
                raise LexError('bracket mismatch at %d' % j)
            want.pop()
            if not want:
                return j
        j += 1
    raise LexError('unclosed bracket at %d' % i)


KW_ITEM = ('fn', 'struct', 'enum', 'union', 'impl', 'trait', 'mod', 'use',
           'const', 'static', 'type', 'macro_rules', 'extern')
QUALS = ('pub', 'unsafe', 'async', 'default', 'const', 'extern')


class Item:
    __slots__ = ('kind', 'name', 'start', 'end', 'head_start', 'body_open',
                 'body_close', 'header', 'children')

    def __repr__(self):
        return 'Item(%s %s %d..%d)' % (self.kind, self.name, self.start,
                                       self.end)


def _skip_ws(msk, i, end):
    while i < end and msk[i].isspace():
        i += 1
    return i


def split_items(src, msk, lo, hi):
    """Split src[lo:hi] (the inside of a file, mod, impl or trait) into items.
    Returns a list of Item.  Leading doc comments/attributes belong to the
    item (start), head_start is the first real token."""
    items = []
    i = lo
    while True:
        # item start: skip whitespace in the *mask*; but comments are blank in
        # the mask, so find the first non-blank mask char, then extend start
        # backwards over directly preceding doc comments.
        j = _skip_ws(msk, i, hi)
        if j >= hi:
            break
        start = _extend_over_doc_comments(src, msk, i, j)
        k = j
        # attributes
        while msk.startswith('#', k):
            b = msk.find('[', k)
            k = match_close(msk, b) + 1
            k = _skip_ws(msk, k, hi)
        head_start = k
        # qualifiers
        kind = None
        name = None
        while True:
            m = IDENT.match(msk, k)
            if not m:
                break
            w = m.group(0)
            if w == 'pub':
                k = _skip_ws(msk, m.end(), hi)
                if msk.startswith('(', k):
                    k = match_close(msk, k) + 1
                k = _skip_ws(msk, k, hi)
                continue
            if w in ('unsafe', 'async', 'default'):
                k = _skip_ws(msk, m.end(), hi)
                continue
            if w == 'extern':
                k2 = _skip_ws(msk, m.end(), hi)
                # extern "C" fn / extern crate
                m2 = IDENT.match(msk, k2)
                if m2 and m2.group(0) == 'crate':
                    kind = 'extern_crate'
                    break
                # the ABI string is blanked in the mask
                k = k2
                continue
            if w == 'const':
                k2 = _skip_ws(msk, m.end(), hi)
                m2 = IDENT.match(msk, k2)
                if m2 and m2.group(0) in ('fn', 'unsafe', 'async', 'extern'):
                    k = k2
                    continue
                kind = 'const'
                name = m2.group(0) if m2 else None
                break
            if w in KW_ITEM:
                kind = w
                k2 = _skip_ws(msk, m.end(), hi)
                if w == 'macro_rules':
                    k2 = _skip_ws(msk, k2 + 1, hi)  # skip '!'
                m2 = IDENT.match(msk, k2)
                name = m2.group(0) if m2 else None
                break
            # something else (macro invocation like `foo! { .. }`)
            kind = 'other'
            name = w
            break
        if kind is None:
            kind = 'other'
        it = Item()
        it.kind, it.name, it.start, it.head_start = kind, name, start, head_start
        it.body_open = it.body_close = None
        it.children = None
        # find end
        if kind in ('use', 'const', 'static', 'type', 'extern_crate'):
            e = _find_semicolon(msk, k, hi)
            it.end = e + 1
        else:
            e = _find_block_or_semi(msk, k, hi)
            if msk[e] == ';':
                it.end = e + 1
            else:
                it.body_open = e
                it.body_close = match_close(msk, e)
                it.end = it.body_close + 1
                # `struct X {..}` has no trailing ';'. macro `foo!{}` neither.
        it.header = src[head_start:(it.body_open if it.body_open is not None
                                    else it.end)]
        items.append(it)
        i = it.end
    return items


def _extend_over_doc_comments(src, msk, i, j):
    """Between i and j the mask is blank; the source may hold comments.  Return
    the offset of the first `///`, `//!`-free doc comment line that is
    contiguous with j, else j.  We keep ordinary comments too when they are
    directly attached (no blank line)."""
    seg = src[i:j]
    # walk lines backwards from j
    pos = j
    lines = seg.split('\n')
    # last element is the indentation before the token at j
    off = j - len(lines[-1])
    start = off
    for ln in reversed(lines[:-1]):
        off -= len(ln) + 1
        s = ln.strip()
        if s.startswith('///') or s.startswith('//') and not s.startswith('//!'):
            start = off
        elif s == '':
            break
        else:
            break
    return max(start, i)


def _find_semicolon(msk, k, hi):
    depth = 0
    while k < hi:
        c = msk[k]
        if c in OPEN:
            k = match_close(msk, k)
        elif c == ';':
            return k
        k += 1
    raise LexError('no semicolon')


def _find_block_or_semi(msk, k, hi):
    while k < hi:
        c = msk[k]
        if c in '([':
            k = match_close(msk, k)
        elif c == '{' or c == ';':
            return k
        k += 1
    raise LexError('no block or semicolon')


def norm(s):
    return re.sub(r'\s+', ' ', s).strip()


class SourceFile:
    def __init__(self, path):
        self.path = path
        self.src = open(path, encoding='utf-8').read()
        self.msk = mask(self.src)
        assert len(self.src) == len(self.msk)
        self.items = split_items(self.src, self.msk, 0, len(self.src))

    def children(self, it):
        if it.children is None:
            if it.body_open is None or it.kind not in ('impl', 'trait', 'mod'):
                it.children = []
            else:
                it.children = split_items(self.src, self.msk,
                                          it.body_open + 1, it.body_close)
        return it.children

    def line_of(self, off):
        return self.src.count('\n', 0, off) + 1

    def find(self, selector):
        """selector: 'fn name' | 'struct Name' | 'impl <key> :: fn name' |
        'impl <key>' | 'mod m :: fn f' ...; returns (container_chain, item).
        impl headers are compared after whitespace normalisation; an inherent
        impl is named by its self type's leading identifier, a trait impl by
        '<Trait> for <Type>' (generics of the impl itself and where-clauses
        are not part of the key).  Exactly one hit is required."""
        parts = [p.strip() for p in re.split(r'\s::\s', selector)]
        hits = self._find_all(self.items, parts)
        if len(hits) != 1:
            raise KeyError('%s: %d candidates for %r' %
                           (self.path, len(hits), selector))
        return hits[0]

    def _siblings(self, it):
        def walk(scope):
            if it in scope:
                return scope
            for c in scope:
                if c.children:
                    r = walk(c.children)
                    if r is not None:
                        return r
            return None
        return walk(self.items) or []

    def _find_all(self, scope, parts):
        cands = [it for it in scope if self._matches(it, parts[0])]
        if len(parts) == 1:
            return [([], c) for c in cands]
        out = []
        for c in cands:
            for chain, it in self._find_all(self.children(c), parts[1:]):
                out.append(([c] + chain, it))
        return out

    def _matches(self, it, p):
        m = re.match(r'(\w+)\s+(.*)$', p)
        if not m:
            return False
        kind, rest = m.group(1), m.group(2)
        if kind != it.kind:
            return False
        if rest.startswith('#'):
            # nth item of that kind among its siblings (1-based), e.g. `use #2`
            sibs = [x for x in self._siblings(it) if x.kind == kind]
            return sibs.index(it) + 1 == int(rest[1:])
        if kind == 'impl':
            hdr = norm(self.msk[it.head_start:it.body_open])
            return impl_key(hdr) == norm(rest) or hdr == norm('impl ' + rest)
        return it.name == rest


def impl_key(hdr):
    """'impl<'s, M: Matcher, S: Sink> Core<'s, M, S>' -> 'Core';
    'impl std::ops::Index<Match> for [u8]' -> 'std::ops::Index<Match> for [u8]';
    where-clauses are cut."""
    s = hdr[len('impl'):].lstrip()
    if s.startswith('<'):
        depth = 0
        for i, c in enumerate(s):
            if c == '<':
                depth += 1
            elif c == '>' and s[i - 1] != '-':
                depth -= 1
                if depth == 0:
                    s = s[i + 1:].lstrip()
                    break
    s = re.split(r'\swhere\s', s)[0].strip()
    if ' for ' in s:
        return norm(s)
    m = re.match(r'[A-Za-z_][A-Za-z0-9_]*', s)
    return m.group(0) if m else s
