"""Insertion-only extraction of real ripgrep items into a single Verus file.

Overlay format (contracts/<unit>/*.ov), line oriented:

  @file <path relative to /repo>
  @module <name>|-            following items go into `pub mod <name> { use super::*; .. }`
  @item <selector>            e.g. `fn locate`, `impl Core :: fn roll`, `struct Match`
  @props C01 C03              properties every obligation of this item is tagged with
  @ret <name>                 `-> T` becomes `-> (<name>: T)`
  @assume                     item is emitted with #[verifier::external_body] (assumption!)
  @attr <text>                attribute line inserted before the item (e.g. #[verifier::loop_isolation(false)])
  @spec                       following lines (until next @) are inserted before the body `{`
  @at before|after <nth> <<anchor>>   following lines are inserted before/after the nth
                              occurrence of the anchor in the item's text.  Whitespace runs in
                              the anchor match any whitespace run.
  @end

A clause line inside @spec/@at may end in `// [C03 C16]` to override the
property tags of that clause.

No token of the source is changed, moved or deleted by a splice.  The only
deletions are those of DROP_PATTERNS below, applied to the item text before
splicing and reported.
"""
import re
import os
import sys
import json

sys.path.insert(0, os.path.dirname(os.path.abspath(__file__)))
import rustlex  # noqa: E402

REPO = os.environ.get('VERIF_REPO', '/repo')


class LostAnchor(Exception):
    def __init__(self, msg, selector=None, file=None):
        Exception.__init__(self, msg)
        self.selector = selector
        self.file = file


class Unsupported(Exception):
    pass


# Fixed list of deletions (reported in evidence as `dropped`).  Each entry:
# (name, regex).  Applied to the item's text.
DROP_PATTERNS = [
    ('doc-comment', re.compile(r'^[ \t]*///[^\n]*\n', re.M)),
]

# An inserted span has to start with one of these (lint: insertions are
# specification or proof text, never executable statements).
ALLOWED_INSERT = re.compile(
    r'^\s*(requires|ensures|invariant|invariant_except_break|decreases|returns|'
    r'proof\s*\{|assert\s*\(|assert\s+forall|let ghost|let tracked|opens_invariants|no_unwind|'
    r'#\[verifier::|#\[trigger\]|broadcast use|reveal\(|//|\{\s*proof\s*\{)')
# closure / signature decorations are short single-line inserts, checked apart
ALLOWED_INLINE = re.compile(
    r'^(\w*\s*:\s*[A-Za-z0-9_&<>\[\]\'():, ]+|\s*->\s*\([a-z_]+:\s*[^)]+\)\s*(requires|ensures)[^{}]*\{?\s*|\s*\}\s*|\((\w+): |\))$', re.S)


class Seg:
    __slots__ = ('text', 'origin')

    def __init__(self, text, origin):
        self.text = text
        self.origin = origin  # ('repo', relpath, offset) | ('ov', path, line, tags) | ('gen',)


class ItemSpec:
    def __init__(self, ovpath, line):
        self.ovpath = ovpath
        self.line = line
        self.file = None
        self.module = None
        self.selector = None
        self.props = []
        self.ret = None
        self.assume = False
        self.attrs = []
        self.spec = None      # (text, line)
        self.ats = []         # (side, nth, anchor, text, line)
        self.dropfields = []
        self.refself = False
        self.stub = False
        self.raw = None       # (text, line) for @raw blocks
        self.optional = set() # indices into ats


def parse_overlay(path):
    items = []
    cur = None
    curfile = None
    curmod = None
    block = None  # ('spec'|'at', payload, lines, startline)
    def close_block():
        nonlocal block
        if block is None:
            return
        kind, payload, lines, ln = block
        text = '\n'.join(lines)
        if kind == 'spec':
            cur.spec = (text, ln)
        elif kind == 'raw':
            cur.raw = (text, ln)
        else:
            side, nth, anchor, opt = payload
            cur.ats.append((side, nth, anchor, text, ln))
            if opt:
                cur.optional.add(len(cur.ats) - 1)
        block = None
    with open(path) as f:
        for n, raw in enumerate(f, 1):
            line = raw.rstrip('\n')
            if line.startswith('@'):
                close_block()
                m = re.match(r'@(\w+)\s*(.*)$', line)
                d, arg = m.group(1), m.group(2).strip()
                if d == 'file':
                    curfile = arg
                elif d == 'module':
                    curmod = None if arg in ('-', '') else arg
                elif d == 'item':
                    cur = ItemSpec(path, n)
                    cur.file, cur.module, cur.selector = curfile, curmod, arg
                    items.append(cur)
                elif d == 'props':
                    cur.props = arg.split()
                elif d == 'ret':
                    cur.ret = arg
                elif d == 'assume':
                    cur.assume = True
                elif d == 'attr':
                    cur.attrs.append(arg)
                elif d == 'dropfield':
                    cur.dropfields += arg.split()
                elif d == 'refself':
                    cur.refself = True
                elif d == 'stub':
                    # assumed contract whose body is not even compiled (it calls code outside the unit):
                    # the body is dropped and replaced by unimplemented!(); reported as dropped.
                    cur.assume = True
                    cur.stub = True
                elif d == 'raw':
                    cur = ItemSpec(path, n)
                    cur.file, cur.module = curfile, curmod
                    items.append(cur)
                    block = ('raw', None, [], n + 1)
                elif d == 'spec':
                    block = ('spec', None, [], n + 1)
                elif d in ('at', 'at_opt'):
                    # @at_opt: an insertion that is only needed if its anchor exists (closure
                    # decorations): skipped, and reported, when the anchor is gone
                    m2 = re.match(r'(before|after)\s+(\d+)\s+<<(.*)>>\s*$', arg)
                    if not m2:
                        raise ValueError('%s:%d bad @at' % (path, n))
                    block = ('at', (m2.group(1), int(m2.group(2)), m2.group(3), d == 'at_opt'), [], n + 1)
                elif d == 'end':
                    cur = None
                elif d == 'comment':
                    pass
                else:
                    raise ValueError('%s:%d unknown directive @%s' % (path, n, d))
            else:
                if block is not None:
                    block[2].append(line)
                elif line.strip() and not line.lstrip().startswith('#'):
                    raise ValueError('%s:%d stray text' % (path, n))
    close_block()
    return items


def anchor_regex(anchor):
    parts = [re.escape(p) for p in anchor.split()]
    return re.compile(r'\s+'.join(parts))


class Assembled:
    def __init__(self):
        self.segs = []
        self.dropped = []       # (relpath, item, name, count)
        self.items = []         # dicts for evidence
        self.erasure_ok = True
        self.assumed_items = []

    def add(self, text, origin):
        if text:
            self.segs.append(Seg(text, origin))

    def text(self):
        return ''.join(s.text for s in self.segs)

    def linemap(self):
        """list indexed by output line-1 -> list of (col_start, origin)"""
        lines = [[]]
        col = 0
        for s in self.segs:
            parts = s.text.split('\n')
            off = 0
            for i, p in enumerate(parts):
                if i > 0:
                    lines.append([])
                    col = 0
                if p or i == 0:
                    o = s.origin
                    if o[0] == 'repo':
                        o = ('repo', o[1], o[2] + off)
                    elif o[0] in ('ov', 'file'):
                        o = (o[0], o[1], o[2] + i) + tuple(o[3:])
                    lines[-1].append((col, o))
                col += len(p)
                off += len(p) + 1
        return lines


_sf_cache = {}


def source(relpath):
    p = os.path.join(REPO, relpath)
    if p not in _sf_cache:
        if not os.path.exists(p):
            raise LostAnchor('file %s does not exist' % relpath)
        try:
            _sf_cache[p] = rustlex.SourceFile(p)
        except rustlex.LexError as e:
            raise Unsupported('cannot lex %s: %s' % (relpath, e))
    return _sf_cache[p]


def msk_item_all(sf, it):
    return sf.msk[it.start:it.end]


def clause_tags(text, default):
    """`// [C03 C16 #label]` at the end of a clause line: property tags and an optional stable label."""
    m = re.search(r'//\s*\[([A-Z0-9 ,]*)(#[\w-]+)?\]\s*$', text)
    if m:
        tags = [t for t in re.split(r'[ ,]+', m.group(1).strip()) if t]
        return tags or default
    return default


def clause_label(text):
    m = re.search(r'//\s*\[[A-Z0-9 ,]*#([\w-]+)\]\s*$', text)
    return m.group(1) if m else None


def splice_item(asm, spec, probe=False, soft=()):
    """Append the annotated text of one item to asm.  Returns nothing."""
    sf = source(spec.file)
    try:
        chain, it = sf.find(spec.selector)
    except KeyError as e:
        raise LostAnchor('item not found: %s (%s)' % (spec.selector, e))
    src = sf.src
    item_src = src[it.start:it.end]
    base = it.start
    # --- fixed deletions: computed as spans on the item text
    dels = []  # (a, b, name) relative to item text
    for name, rx in DROP_PATTERNS:
        for m in rx.finditer(item_src):
            # only drop when the match is not inside a string/comment-free
            # region of code... doc comments are comments in the mask; attrs
            # are code.  Both are safe to drop by regex at line starts.
            dels.append((m.start(), m.end(), name))
    if spec.stub:
        if it.kind != 'fn' or it.body_open is None:
            raise Unsupported('@stub on an item without a body: %s' % spec.selector)
        dels.append((it.body_open - base + 1, it.body_close - base, 'body-of-assumed-item'))
    for fname in spec.dropfields:
        if it.kind != 'struct' or it.body_open is None:
            raise Unsupported('@dropfield on a non-struct item %s' % spec.selector)
        bo = it.body_open - base
        bc = it.body_close - base
        mfield = None
        for m in re.finditer(r'(?m)^[ \t]*(pub(\([^)]*\))?[ \t]+)?%s[ \t]*:' % re.escape(fname), msk_item_all(sf, it)):
            if bo < m.start() < bc:
                mfield = m
                break
        if mfield is None:
            raise LostAnchor('%s: field %s not found' % (spec.selector, fname))
        # extend to the ',' that ends the field at depth 1
        msk_it = msk_item_all(sf, it)
        k = mfield.end()
        depth = 0
        while k < bc:
            c = msk_it[k]
            if c in '([{<':
                depth += 1
            elif c in ')]}>':
                depth -= 1
            elif c == ',' and depth == 0:
                k += 1
                break
            k += 1
        # swallow the rest of the line
        while k < bc and item_src[k] in ' \t':
            k += 1
        if k < bc and item_src[k] == '\n':
            k += 1
        # and the attached doc comments / attributes above the field
        a = mfield.start()
        while True:
            prev_nl = item_src.rfind('\n', 0, a - 1)
            line = item_src[prev_nl + 1:a]
            st = line.strip()
            if st.startswith('///') or st.startswith('#['):
                a = prev_nl + 1
            else:
                break
        dels.append((a, k, 'field:' + fname))
    dels.sort()
    # remove overlaps
    clean = []
    for a, b, nme in sorted(dels, key=lambda d: (d[0], -(d[1] - d[0]))):
        if clean and a < clean[-1][1]:
            if b <= clean[-1][1]:
                continue        # contained in the previous span
            raise Unsupported('overlapping dropped spans in %s' % spec.selector)
        clean.append((a, b, nme))
    dels = clean
    # --- insertions: list of (pos relative to item text, order, text, ovline, tags, kind)
    ins = []
    order = 0
    msk_item = sf.msk[it.start:it.end]
    if it.kind == 'fn':
        # body open / or trailing ';'
        if it.body_open is not None:
            body_rel = it.body_open - base
        else:
            body_rel = len(item_src) - 1  # the ';'
        if spec.ret:
            sig = msk_item[:body_rel]
            # find the '->' at paren depth 0 after the parameter list
            fnkw = re.search(r'\bfn\b', sig).end()
            p = sig.find('(', fnkw)
            pclose = rustlex.match_close(sig, p)
            arrow = sig.find('->', pclose)
            if arrow < 0:
                raise LostAnchor('%s: @ret given but no return type' % spec.selector)
            tstart = arrow + 2
            while sig[tstart].isspace():
                tstart += 1
            w = re.search(r'\bwhere\b', sig[tstart:])
            tend = tstart + w.start() if w else len(sig)
            while sig[tend - 1].isspace():
                tend -= 1
            ins.append((tstart, order, '(%s: ' % spec.ret, spec.line, spec.props, 'inline')); order += 1
            ins.append((tend, order, ')', spec.line, spec.props, 'inline')); order += 1
        if spec.refself:
            # Verus does not support a `mut self` receiver: insert `&` so that it reads
            # `&mut self`.  The body is untouched (field access and method calls through
            # `self` mean the same); dropping `self` at return is not modelled.  Reported.
            sig = msk_item[:body_rel]
            mm = re.search(r'\(\s*(mut\s+self)\b', sig)
            if not mm:
                raise LostAnchor('%s: @refself but no `mut self` receiver' % spec.selector)
            ins.append((mm.start(1), order, '&', spec.line, spec.props, 'inline')); order += 1
            asm.dropped.append((spec.file, spec.selector, 'TRANSFORM mut-self-receiver-to-&mut-self', 1))
        if spec.spec:
            text, ln = spec.spec
            # put the clause block on its own lines
            pos = body_rel
            # back up over whitespace so that `{` stays where it was
            ins.append((pos, order, '\n' + text + '\n', ln - 1, spec.props, 'spec')); order += 1
    elif spec.spec or spec.ret:
        raise Unsupported('%s: @spec/@ret on a non-fn item' % spec.selector)
    if spec.stub:
        ins.append((it.body_close - base, order, ' unimplemented!() ', spec.line, spec.props, 'inline')); order += 1
    ats = spec.ats
    if (spec.file, spec.selector) in soft:
        # the body of this function was rewritten and some proof anchors are gone: keep the contract
        # (@spec / @ret) and drop every body-level insertion; reported, and failures of this function
        # are arbitrated by its twin (tools/check.py)
        ats = []
        asm.dropped.append((spec.file, spec.selector, 'HINTS DROPPED (anchors lost in a rewritten body)', len(spec.ats)))
    for ai, (side, nth, anchor, text, ln) in enumerate(ats):
        rx = anchor_regex(anchor)
        ms = list(rx.finditer(item_src))
        if len(ms) < nth and ai in spec.optional:
            asm.dropped.append((spec.file, spec.selector, 'SKIPPED optional insertion (anchor gone): %s' % anchor[:40], 1))
            continue
        if len(ms) < nth:
            raise LostAnchor('%s: anchor <<%s>> #%d not found in %s' %
                             (spec.selector, anchor, nth, spec.file), spec.selector, spec.file)
        m = ms[nth - 1]
        pos = m.start() if side == 'before' else m.end()
        kind = 'inline' if ('\n' not in text and ALLOWED_INLINE.match(text)) else 'block'
        if kind == 'block':
            if not ALLOWED_INSERT.match(text):
                raise Unsupported('%s:%d inserted text is not specification/proof text' %
                                  (spec.ovpath, ln))
            text = '\n' + text + '\n'
            ln = ln - 1
        ins.append((pos, order, text, ln, spec.props, kind)); order += 1
    if probe and it.kind == 'fn' and it.body_open is not None and not spec.assume \
            and (spec.spec or spec.ats):
        # vacuity probes: an `assert(false)` at the start of the body (and of
        # every loop body that carries an invariant) must be REJECTED.
        pts = [it.body_open - base + 1] if probe != 'loops' else [None]
        for side, nth, anchor, text, ln in (spec.ats if (spec.file, spec.selector) not in soft else []):
            if text.lstrip().startswith('invariant'):
                m = list(anchor_regex(anchor).finditer(item_src))[nth - 1]
                q = msk_item.find('{', m.end() if side == 'after' else m.start())
                if q >= 0:
                    pts.append(q + 1)
        for k, q in enumerate(pts):
            if q is None:
                continue
            ins.append((q, 10000 + k, '\nproof { assert(false); } // PROBE\n', spec.line,
                        ['PROBE:%s#%d' % (spec.selector, k)], 'probe')); order += 1
    for pos, _, text, ln, _, _ in ins:
        if '/*' in text or '*/' in text:
            raise Unsupported('%s:%d block comment delimiters in inserted text' % (spec.ovpath, ln))
        for a, b, _n in dels:
            if a < pos < b:
                raise LostAnchor('%s: insertion point inside a dropped span' % spec.selector)
    ins.sort(key=lambda t: (t[0], t[1]))
    # --- emit
    events = [(a, 0, 'del', (b, nme)) for a, b, nme in dels] + \
             [(p, 1 + o, 'ins', (t, ln, tags)) for p, o, t, ln, tags, _ in ins]
    events.sort(key=lambda e: (e[0], e[1]))
    out_before = len(asm.segs)
    for a in spec.attrs:
        asm.add(a + '\n', ('ov', spec.ovpath, spec.line, spec.props))
    if spec.assume:
        asm.add('#[verifier::external_body]\n', ('ov', spec.ovpath, spec.line, spec.props))
        asm.assumed_items.append('%s :: %s' % (spec.file, spec.selector))
    cur = 0
    dropped_counts = {}
    for pos, _, kind, payload in events:
        if pos > cur:
            asm.add(item_src[cur:pos], ('repo', spec.file, base + cur))
            cur = pos
        if kind == 'del':
            b, nme = payload
            dropped_counts[nme] = dropped_counts.get(nme, 0) + 1
            cur = max(cur, b)
        else:
            t, ln, tags = payload
            asm.add(t, ('ov', spec.ovpath, ln, tags))
    if cur < len(item_src):
        asm.add(item_src[cur:], ('repo', spec.file, base + cur))
    asm.add('\n', ('gen',))
    # --- erasure check: remove inserted spans, re-add nothing, compare with
    # source minus dropped spans
    erased = ''.join(s.text for s in asm.segs[out_before:] if s.origin[0] == 'repo')
    expect = item_src
    for a, b, _n in reversed(dels):
        expect = expect[:a] + expect[b:]
    ok = (erased == expect)
    if not ok:
        asm.erasure_ok = False
    for nme, c in dropped_counts.items():
        asm.dropped.append((spec.file, spec.selector, nme, c))
    asm.items.append({
        'file': spec.file, 'selector': spec.selector, 'kind': it.kind,
        'name': it.name, 'line': sf.line_of(it.head_start),
        'end_line': sf.line_of(it.end), 'props': spec.props,
        'assumed': spec.assume, 'has_contract': bool(spec.spec),
        'erasure_ok': ok,
        'seg_start': out_before, 'seg_end': len(asm.segs),
        'body_probe': None,
    })
    return chain, it, sf


class ModNode:
    def __init__(self, name):
        self.name = name
        self.entries = []   # ('raw', relpath) | ('item', ItemSpec) | ('text', text, origin)
        self.children = {}
        self.order = []

    def child(self, name):
        if name not in self.children:
            self.children[name] = ModNode(name)
            self.order.append(name)
            self.entries.append(('mod', name))
        return self.children[name]


def assemble(unit_dir, out_path, probe=False, soft=()):
    """unit_dir contains unit.json:
       {"layout": [ {"module": "a::b" | "", "include": "file.rs"} |
                    {"module": "...", "overlay": "file.ov"} , ... ],
        "features": [...]}
    Entries are emitted in order inside their module; modules are emitted
    where they are first mentioned in their parent.  Every non-root module
    starts with `use vstd::prelude::*; use crate::*;`.
    """
    cfg = json.load(open(os.path.join(unit_dir, 'unit.json')))
    asm = Assembled()
    hdr = '// GENERATED by tools/extract.py from /repo working tree + %s -- do not edit\n' % unit_dir
    for feat in cfg.get('features', []):
        hdr += '#![feature(%s)]\n' % feat
    hdr += '#![allow(unused_imports, dead_code, unused_variables, unused_mut, unused_parens, unused_braces, non_camel_case_types, unused_macros, unused_assignments)]\n'
    hdr += 'use vstd::prelude::*;\n'
    hdr += 'verus! {\n'
    asm.add(hdr, ('gen',))
    root = ModNode('')

    def node(path):
        n = root
        if path:
            for part in path.split('::'):
                n = n.child(part)
        return n

    for ent in cfg['layout']:
        n = node(ent.get('module', ''))
        if 'include' in ent:
            n.entries.append(('raw', ent['include']))
        elif 'overlay' in ent:
            for sp in parse_overlay(os.path.normpath(os.path.join(unit_dir, ent['overlay']))):
                sp.module = ent.get('module', '')
                # "only": take just these selectors (and @raw blocks whose text mentions "only_raw")
                if 'only' in ent:
                    if sp.raw is not None:
                        if not ent.get('only_raw') or ent['only_raw'] not in sp.raw[0]:
                            continue
                    elif sp.selector not in ent['only']:
                        continue
                # "unstub": the same contracts, but PROVED here (the other unit assumes them)
                if ent.get('unstub') and sp.raw is None:
                    sp.assume = False
                    sp.stub = False
                # "stub": the same contracts ASSUMED here (another unit proves them); bodies are not compiled
                if ent.get('stub') and sp.raw is None and re.search(r'\bfn \w+$', sp.selector or ''):
                    sp.assume = True
                    sp.stub = True
                n.entries.append(('item', sp))

    def emit(n, depth):
        cur_container = None

        def close_container():
            nonlocal cur_container
            if cur_container is not None:
                asm.add('}\n', ('gen',))
                cur_container = None

        for e in n.entries:
            if e[0] == 'raw':
                close_container()
                p = os.path.normpath(os.path.join(unit_dir, e[1]))
                asm.add('// ---- %s\n' % e[1], ('gen',))
                with open(p) as f:
                    for k, l in enumerate(f, 1):
                        asm.add(l if l.endswith('\n') else l + '\n', ('file', p, k))
            elif e[0] == 'mod':
                close_container()
                asm.add('pub mod %s {\nuse vstd::prelude::*;\nuse crate::*;\n' % e[1], ('gen',))
                emit(n.children[e[1]], depth + 1)
                asm.add('} // mod %s\n' % e[1], ('gen',))
            elif e[1].raw is not None:
                close_container()
                text, ln = e[1].raw
                for k, l in enumerate(text.split('\n')):
                    asm.add(l + '\n', ('ov', e[1].ovpath, ln + k, []))
            else:
                sp = e[1]
                sf = source(sp.file)
                try:
                    chain, it = sf.find(sp.selector)
                except KeyError as ex:
                    raise LostAnchor('item not found: %s in %s (%s)' % (sp.selector, sp.file, ex))
                key = (sp.file, chain[-1].start) if chain else None
                if key != cur_container:
                    close_container()
                    if chain:
                        if len(chain) > 1:
                            raise Unsupported('nested containers not supported: %s' % sp.selector)
                        c = chain[0]
                        asm.add(sf.src[c.head_start:c.body_open + 1] + '\n',
                                ('repo', sp.file, c.head_start))
                        cur_container = key
                splice_item(asm, sp, probe, soft)
        close_container()

    emit(root, 0)
    asm.add('} // verus!\nfn main() {}\n', ('gen',))
    # output line ranges of every item
    line = 1
    seg_line = []
    for sg in asm.segs:
        seg_line.append(line)
        line += sg.text.count('\n')
    seg_line.append(line)
    for it in asm.items:
        it['out_line_start'] = seg_line[it['seg_start']]
        it['out_line_end'] = seg_line[it['seg_end']]
    os.makedirs(os.path.dirname(out_path), exist_ok=True)
    with open(out_path, 'w') as f:
        f.write(asm.text())
    return asm, cfg


def cut_items(relpath, selectors):
    """verbatim text of the named items of a /repo file (for the Kani twin crates)"""
    sf = source(relpath)
    out = []
    for sel in selectors:
        try:
            chain, it = sf.find(sel)
        except KeyError as e:
            raise LostAnchor('item not found: %s in %s (%s)' % (sel, relpath, e))
        out.append('// ---- %s :: %s (lines %d-%d), verbatim\n' % (relpath, sel, sf.line_of(it.start), sf.line_of(it.end)))
        out.append(sf.src[it.start:it.end] + '\n')
    return ''.join(out)


if __name__ == '__main__':
    a, _ = assemble(sys.argv[1], sys.argv[2])
    print(json.dumps({'items': a.items, 'dropped': a.dropped, 'erasure_ok': a.erasure_ok}, indent=1))
