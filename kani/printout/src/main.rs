//! C09, bounded NATIVE enumeration (not Kani, not a proof): the real printer + searcher + regex crates of
//! /repo (path dependencies, configured as crates/core/flags/hiargs.rs configures them) print lines that are
//! byte-for-byte the input's own, with the line number, byte offset and column that identify the line and
//! its first match; JSON output reproduces the input bytes exactly, base64 exactly for invalid UTF-8.
//! The expectation is computed directly from the input with the `regex` crate (the property's statement).
//!
//!   patterns: a, ab, a+, a|b, ^a, b$, (?-u:\xFF), b\nb|a  (the last one CAN match a line terminator, which
//!             makes `rg -U` take the multi-line strategy; inputs on which some match really spans a
//!             terminator are skipped, so the per-line expectation is well defined)
//!   inputs  : every text over {a, b, 0xFF, \n, \r, 0xCE, 0xB1 (together: U+03B1)} of <= VERIF_PRINT_LEN bytes (default 5)
//!   modes   : 0 `-n -b --column`   1 `--vimgrep` (one record per match)   2 `-o -n -b --column`   3 `--json`
//!             each without and with -U
use grep_printer::{JSONBuilder, StandardBuilder};
use grep_regex::RegexMatcherBuilder;
use grep_searcher::SearcherBuilder;
use termcolor::NoColor;

const PATTERNS: &[&str] = &["a", "ab", "a+", "a|b", "^a", "b$", r"(?-u:\xFF)", "b\nb|a", r"(?-u:\xCE)|a"];
const ALPHA: &[u8] = &[b'a', b'b', 0xFF, b'\n', b'\r', 0xCE, 0xB1];

fn inputs(max: usize) -> Vec<Vec<u8>> {
    let mut out: Vec<Vec<u8>> = vec![vec![]];
    let mut cur: Vec<Vec<u8>> = vec![vec![]];
    for _ in 0..max {
        let mut next = vec![];
        for w in &cur {
            for &b in ALPHA {
                let mut v = w.clone();
                v.push(b);
                next.push(v);
            }
        }
        out.extend(next.iter().cloned());
        cur = next;
    }
    out
}

fn matcher(pattern: &str, multiline: bool) -> Option<grep_regex::RegexMatcher> {
    let mut mb = RegexMatcherBuilder::new();
    mb.multi_line(true).unicode(true).octal(false);
    if !multiline {
        mb.line_terminator(Some(b'\n')).dot_matches_new_line(false);
    }
    // without -U a pattern that contains a line terminator is rejected by ripgrep: such combinations are skipped
    mb.build(pattern).ok()
}

/// a consumer that closes the pipe after `limit` bytes: bytes up to the limit are accepted (partial writes
/// included), every later write fails with BrokenPipe
struct ClosedAfter { limit: usize, written: usize, refused: bool }
impl std::io::Write for ClosedAfter {
    fn write(&mut self, buf: &[u8]) -> std::io::Result<usize> {
        if self.written >= self.limit && !buf.is_empty() {
            self.refused = true;
            return Err(std::io::Error::new(std::io::ErrorKind::BrokenPipe, "Broken pipe (os error 32)"));
        }
        let n = buf.len().min(self.limit - self.written);
        self.written += n;
        Ok(n)
    }
    fn flush(&mut self) -> std::io::Result<()> { Ok(()) }
}

/// C15: "a consumer closing the output pipe ends the run promptly with status 0 and no diagnostic" --
/// crates/core/main.rs recognises the closed pipe by `err.kind() == BrokenPipe` on the error returned by the
/// search, so for EVERY byte position k at which the pipe closes the printers must hand back an error of that
/// kind (not Ok, not an error of another kind)
fn check_pipe(pattern: &str, input: &[u8], mode: u32, multiline: bool) -> Option<String> {
    let full = match actual(pattern, input, mode, multiline) { Ok(g) => g, Err(_) => return None };
    for k in 0..full.len() {
        let m = matcher(pattern, multiline)?;
        let mut searcher = SearcherBuilder::new().line_number(true).multi_line(multiline).build();
        let (r, refused) = if mode == 3 {
            let mut p = JSONBuilder::new().always_begin_end(false).build(ClosedAfter { limit: k, written: 0, refused: false });
            let r = searcher.search_slice(&m, input, p.sink(&m));
            (r, p.into_inner().refused)
        } else {
            let mut b = StandardBuilder::new();
            b.per_match_one_line(true);
            match mode {
                0 => { b.byte_offset(true).column(true); }
                1 => { b.per_match(true).column(true); }
                _ => { b.only_matching(true).byte_offset(true).column(true); }
            }
            let mut p = b.build(NoColor::new(ClosedAfter { limit: k, written: 0, refused: false }));
            let r = searcher.search_slice(&m, input, p.sink(&m));
            (r, p.into_inner().into_inner().refused)
        };
        // (the JSON output carries elapsed times, so its length varies by a byte or two between runs: the
        // criterion is whether the writer actually refused a write, not the position k itself)
        match r {
            Err(e) if e.kind() == std::io::ErrorKind::BrokenPipe => {}
            Err(e) => return Some(format!("the pipe closes after {} bytes: the search returns an error of kind {:?} ({}), not BrokenPipe, so the run would report it and exit with status 2", k, e.kind(), e)),
            Ok(()) if refused => return Some(format!("the pipe closes after {} bytes: a write was refused but the search returns Ok, the write error was swallowed", k)),
            Ok(()) => {}
        }
    }
    None
}

/// what ripgrep prints (real code)
fn actual(pattern: &str, input: &[u8], mode: u32, multiline: bool) -> Result<Vec<u8>, String> {
    let m = match matcher(pattern, multiline) { Some(m) => m, None => return Err("SKIP".into()) };
    let mut searcher = SearcherBuilder::new().line_number(true).multi_line(multiline).build();
    if mode == 3 {
        let mut p = JSONBuilder::new().always_begin_end(false).build(vec![]);
        searcher.search_slice(&m, input, p.sink(&m)).map_err(|e| e.to_string())?;
        return Ok(p.into_inner());
    }
    let mut b = StandardBuilder::new();
    b.per_match_one_line(true);
    match mode {
        0 => { b.byte_offset(true).column(true); }
        1 => { b.per_match(true).column(true); }
        _ => { b.only_matching(true).byte_offset(true).column(true); }
    }
    let mut p = b.build(NoColor::new(vec![]));
    searcher.search_slice(&m, input, p.sink(&m)).map_err(|e| e.to_string())?;
    Ok(p.into_inner().into_inner())
}

struct Line { start: usize, body: (usize, usize), end: usize, number: u64 }
fn lines_of(input: &[u8]) -> Vec<Line> {
    let mut v = vec![];
    let mut s = 0;
    let mut n = 1;
    while s < input.len() {
        let e = input[s..].iter().position(|&b| b == b'\n').map(|i| s + i + 1).unwrap_or(input.len());
        let be = if input[e - 1] == b'\n' { e - 1 } else { e };
        v.push(Line { start: s, body: (s, be), end: e, number: n });
        n += 1;
        s = e;
    }
    v
}

fn rfc4648_decode(s: &[u8]) -> Option<Vec<u8>> {
    fn val(c: u8) -> Option<u32> {
        match c { b'A'..=b'Z' => Some((c - b'A') as u32), b'a'..=b'z' => Some((c - b'a') as u32 + 26), b'0'..=b'9' => Some((c - b'0') as u32 + 52), b'+' => Some(62), b'/' => Some(63), _ => None }
    }
    if s.len() % 4 != 0 { return None; }
    let mut out = vec![];
    let mut i = 0;
    while i < s.len() {
        let last = i + 4 == s.len();
        let (a, b) = (val(s[i])?, val(s[i + 1])?);
        out.push(((a << 2) | (b >> 4)) as u8);
        if last && s[i + 2] == b'=' {
            if s[i + 3] != b'=' { return None; }
        } else {
            let c = val(s[i + 2])?;
            out.push((((b & 0xF) << 4) | (c >> 2)) as u8);
            if !(last && s[i + 3] == b'=') {
                let d = val(s[i + 3])?;
                out.push((((c & 3) << 6) | d) as u8);
            }
        }
        i += 4;
    }
    Some(out)
}

/// `{"text": ..}` or `{"bytes": base64}`: the bytes it stands for, and whether the right arm was used
fn data_bytes(v: &serde_json::Value) -> Option<Vec<u8>> {
    if let Some(t) = v.get("text").and_then(|t| t.as_str()) {
        return Some(t.as_bytes().to_vec());
    }
    let b = v.get("bytes")?.as_str()?;
    let raw = rfc4648_decode(b.as_bytes())?;
    if std::str::from_utf8(&raw).is_ok() { return None; } // base64 only for invalid UTF-8
    Some(raw)
}

/// the property's statement, computed from the input
fn check(pattern: &str, re: &regex::bytes::Regex, input: &[u8], mode: u32, multiline: bool) -> Option<String> {
    // skip inputs on which a match really spans a line terminator (only possible for the last pattern)
    if re.find_iter(input).any(|m| input[m.start()..m.end()].contains(&b'\n')) {
        return None;
    }
    if std::env::var("VERIF_PRINT_PIPE").is_ok() {
        return check_pipe(pattern, input, mode, multiline);
    }
    let ls = lines_of(input);
    // Listed known finding: with -U, adjacent matching lines reach the printer as ONE block and the column
    // (and, with -o, every column after the first line) is computed from the start of the block, not of the
    // line being printed.  The default run skips exactly these cases, VERIF_PRINT_CLASS=known runs only them.
    let matching: Vec<bool> = ls.iter().map(|l| re.is_match(&input[l.body.0..l.body.1])).collect();
    let known = multiline && (mode == 0 || mode == 2) && matching.windows(2).any(|w| w[0] && w[1]);
    let only_known = std::env::var("VERIF_PRINT_CLASS").map(|v| v == "known").unwrap_or(false);
    if known != only_known {
        return None;
    }
    let got = match actual(pattern, input, mode, multiline) { Ok(g) => g, Err(e) if e == "SKIP" => return None, Err(e) => return Some(format!("search failed: {}", e)) };
    if mode == 3 {
        let mut expect_msgs: Vec<(u64, usize, Vec<u8>, Vec<(usize, usize)>)> = vec![];
        for l in &ls {
            let body = &input[l.body.0..l.body.1];
            let ms: Vec<(usize, usize)> = re.find_iter(body).map(|m| (m.start(), m.end())).collect();
            if !ms.is_empty() {
                expect_msgs.push((l.number, l.start, input[l.start..l.end].to_vec(), ms));
            }
        }
        let text = match std::str::from_utf8(&got) { Ok(t) => t, Err(_) => return Some("JSON output is not UTF-8".into()) };
        let msgs: Vec<serde_json::Value> = match text.lines().map(serde_json::from_str).collect::<Result<_, _>>() { Ok(m) => m, Err(e) => return Some(format!("JSON output does not parse: {}", e)) };
        if expect_msgs.is_empty() {
            return if msgs.is_empty() { None } else { Some(format!("no line matches but JSON messages were written: {}", text)) };
        }
        let kinds: Vec<&str> = msgs.iter().map(|m| m["type"].as_str().unwrap_or("?")).collect();
        if kinds.first() != Some(&"begin") || kinds.last() != Some(&"end") || kinds.iter().filter(|k| **k == "begin" || **k == "end").count() != 2 {
            return Some(format!("messages are not one begin, matches, one end: {:?}", kinds));
        }
        let body: Vec<&serde_json::Value> = msgs[1..msgs.len() - 1].iter().collect();
        // in multi-line mode adjacent matching lines may arrive as one block: compare concatenations
        let mut got_lines: Vec<u8> = vec![];
        let mut got_sub: Vec<(usize, usize)> = vec![]; // absolute offsets
        let mut first_numbers: Vec<(u64, usize)> = vec![];
        for m in &body {
            if m["type"] != "match" { return Some(format!("unexpected message {}", m)); }
            let d = &m["data"];
            let bytes = match data_bytes(&d["lines"]) { Some(b) => b, None => return Some(format!("lines field is neither valid text nor base64 of invalid UTF-8: {}", d["lines"])) };
            let off = d["absolute_offset"].as_u64().unwrap_or(u64::MAX) as usize;
            let ln = d["line_number"].as_u64().unwrap_or(0);
            if off + bytes.len() > input.len() || input[off..off + bytes.len()] != bytes[..] {
                return Some(format!("reported lines {:?} at offset {} are not the input's bytes there", String::from_utf8_lossy(&bytes), off));
            }
            first_numbers.push((ln, off));
            for sm in d["submatches"].as_array().cloned().unwrap_or_default() {
                let (s, e) = (sm["start"].as_u64().unwrap_or(0) as usize, sm["end"].as_u64().unwrap_or(0) as usize);
                let mb = match data_bytes(&sm["match"]) { Some(b) => b, None => return Some(format!("submatch field is neither valid text nor base64 of invalid UTF-8: {}", sm["match"])) };
                if e > bytes.len() || s > e || bytes[s..e] != mb[..] {
                    return Some(format!("submatch {:?} [{}, {}) is not the reported line's bytes there", String::from_utf8_lossy(&mb), s, e));
                }
                got_sub.push((off + s, off + e));
            }
            got_lines.extend_from_slice(&bytes);
        }
        let want_lines: Vec<u8> = expect_msgs.iter().flat_map(|x| x.2.clone()).collect();
        let want_sub: Vec<(usize, usize)> = expect_msgs.iter().flat_map(|x| x.3.iter().map(move |&(s, e)| (x.1 + s, x.1 + e))).collect();
        if got_lines != want_lines {
            return Some(format!("reported line texts concatenate to {:?}, the matching lines of the input are {:?}", String::from_utf8_lossy(&got_lines), String::from_utf8_lossy(&want_lines)));
        }
        if got_sub != want_sub {
            return Some(format!("submatch offsets {:?}, the matches are at {:?}", got_sub, want_sub));
        }
        for (ln, off) in first_numbers {
            match ls.iter().find(|l| l.start == off) {
                Some(l) if l.number == ln => {}
                _ => return Some(format!("a message reports line number {} at offset {}, which is not that line's number", ln, off)),
            }
        }
        return None;
    }
    let mut want: Vec<u8> = vec![];
    for l in &ls {
        let body = &input[l.body.0..l.body.1];
        let ms: Vec<(usize, usize)> = re.find_iter(body).map(|m| (m.start(), m.end())).collect();
        if ms.is_empty() { continue; }
        match mode {
            0 => {
                want.extend_from_slice(format!("{}:{}:{}:", l.number, ms[0].0 + 1, l.start).as_bytes());
                want.extend_from_slice(body);
                want.push(b'\n');
            }
            1 => {
                for &(s, _) in &ms {
                    want.extend_from_slice(format!("{}:{}:", l.number, s + 1).as_bytes());
                    want.extend_from_slice(body);
                    want.push(b'\n');
                }
            }
            _ => {
                for &(s, e) in &ms {
                    want.extend_from_slice(format!("{}:{}:{}:", l.number, s + 1, l.start + s).as_bytes());
                    want.extend_from_slice(&body[s..e]);
                    want.push(b'\n');
                }
            }
        }
    }
    if got != want {
        return Some(format!("ripgrep prints {:?}, the input's own lines and coordinates give {:?}", String::from_utf8_lossy(&got), String::from_utf8_lossy(&want)));
    }
    None
}

/// C16 ("a per-file limit of N matches yields exactly the first N matching lines plus the trailing context they
/// are entitled to"): `-n -m N -A a` on the Standard printer (mode 0) and `--json -m N -A a` (mode 3)
fn check_limit(pattern: &str, re: &regex::bytes::Regex, input: &[u8], json: bool, multiline: bool, n: u64, a: usize) -> Option<String> {
    if re.find_iter(input).any(|m| input[m.start()..m.end()].contains(&b'\n')) { return None; }
    let m = matcher(pattern, multiline)?;
    let mut searcher = SearcherBuilder::new().line_number(true).multi_line(multiline).after_context(a).build();
    let ls = lines_of(input);
    // expected records: (kind, line number): 'M' match, 'C' context, 'S' separator
    let mut want: Vec<(char, u64)> = vec![];
    let mut matches = 0u64;
    let mut last_printed: Option<usize> = None;
    let mut since_match = usize::MAX; // lines since the last printed match
    for (i, l) in ls.iter().enumerate() {
        let sel = re.is_match(&input[l.body.0..l.body.1]);
        if sel {
            if matches == n {
                // the limit is reached: a matching line inside the trailing context window of the N-th match is
                // still printed (as a match line), but it neither extends the window nor counts (the unedited
                // test standard::tests::max_matches_context pins this reading of "trailing context")
                if since_match < a { want.push(('M', l.number)); last_printed = Some(i); since_match += 1; continue; }
                break;
            }
            if let Some(p) = last_printed { if p + 1 != i && a > 0 { want.push(('S', 0)); } }
            want.push(('M', l.number));
            matches += 1;
            last_printed = Some(i);
            since_match = 0;
        } else if since_match < a {
            want.push(('C', l.number));
            last_printed = Some(i);
            since_match += 1;
        } else {
            since_match = usize::MAX;
            if matches == n { break; }
        }
    }
    let got: Vec<(char, u64)> = if json {
        let mut p = JSONBuilder::new().max_matches(Some(n)).build(vec![]);
        if searcher.search_slice(&m, input, p.sink(&m)).is_err() { return Some("search failed".into()); }
        let out = p.into_inner();
        let text = String::from_utf8_lossy(&out).to_string();
        let mut v = vec![];
        for line in text.lines() {
            let msg: serde_json::Value = match serde_json::from_str(line) { Ok(x) => x, Err(e) => return Some(format!("JSON does not parse: {}", e)) };
            match msg["type"].as_str() {
                Some("match") | Some("context") => {
                    // a message may carry several lines (multi-line blocks): one record per line
                    let bytes = data_bytes(&msg["data"]["lines"]).unwrap_or_default();
                    let k = if msg["type"] == "match" { 'M' } else { 'C' };
                    let first = msg["data"]["line_number"].as_u64().unwrap_or(0);
                    let cnt = bytes.iter().filter(|&&b| b == b'\n').count().max(1) + if !bytes.ends_with(b"\n") && bytes.contains(&b'\n') { 1 } else { 0 };
                    for d in 0..cnt as u64 { v.push((k, first + d)); }
                }
                _ => {}
            }
        }
        v
    } else {
        let mut b = StandardBuilder::new();
        b.max_matches(Some(n));
        let mut p = b.build(NoColor::new(vec![]));
        if searcher.search_slice(&m, input, p.sink(&m)).is_err() { return Some("search failed".into()); }
        let out = p.into_inner().into_inner();
        let mut v = vec![];
        for rec in out.split(|&b| b == b'\n') {
            if rec.is_empty() { continue; }
            if rec == b"--" { v.push(('S', 0)); continue; }
            let digits: Vec<u8> = rec.iter().cloned().take_while(|b| b.is_ascii_digit()).collect();
            let ln: u64 = String::from_utf8_lossy(&digits).parse().unwrap_or(0);
            match rec.get(digits.len()) { Some(b':') => v.push(('M', ln)), Some(b'-') => v.push(('C', ln)), _ => return Some(format!("unparsable output record {:?}", String::from_utf8_lossy(rec))) }
        }
        v
    };
    let want_cmp: Vec<(char, u64)> = if json { want.iter().cloned().filter(|r| r.0 != 'S').collect() } else { want.clone() };
    if got != want_cmp {
        return Some(format!("-m {} -A {}: printed records {:?}, the first {} matching lines plus their trailing context are {:?} (M match, C context, S separator; with line numbers)", n, a, got, n, want_cmp));
    }
    None
}

/// C09 ("each file's messages form one begin, then matches/contexts in order, then one end") also when only
/// context lines are written: `--json --passthru` (and `-A/-B`) on inputs with and without a match
fn check_json_framing(pattern: &str, input: &[u8], multiline: bool, passthru: bool) -> Option<String> {
    let m = matcher(pattern, multiline)?;
    let mut sb = SearcherBuilder::new();
    sb.line_number(true).multi_line(multiline);
    if passthru { sb.passthru(true); } else { sb.after_context(1).before_context(1); }
    let mut searcher = sb.build();
    let mut p = JSONBuilder::new().always_begin_end(false).build(vec![]);
    if searcher.search_slice(&m, input, p.sink(&m)).is_err() { return Some("search failed".into()); }
    let out = p.into_inner();
    let kinds: Vec<String> = String::from_utf8_lossy(&out).lines().filter_map(|l| serde_json::from_str::<serde_json::Value>(l).ok()).map(|v| v["type"].as_str().unwrap_or("?").to_string()).collect();
    if kinds.is_empty() { return None; }
    let ok = kinds.first().map(|k| k == "begin").unwrap_or(false) && kinds.last().map(|k| k == "end").unwrap_or(false)
        && kinds.iter().filter(|k| *k == "begin").count() == 1 && kinds.iter().filter(|k| *k == "end").count() == 1;
    if !ok { return Some(format!("passthru={}: the messages are {:?}, not one begin .. one end", passthru, kinds)); }
    None
}

/// C14 ("ripgrep never writes a NUL byte taken from a searched file to its output" unless --text): binary detection
/// in convert or quit mode, with context, slice and reader strategies: no NUL byte in what the printers write
fn check_nul(pattern: &str, input: &[u8], mode: u32, multiline: bool, quit: bool, reader: bool, ctx: usize) -> Option<String> {
    let m = matcher(pattern, multiline)?;
    let det = if quit { grep_searcher::BinaryDetection::quit(0) } else { grep_searcher::BinaryDetection::convert(0) };
    let mut searcher = SearcherBuilder::new().line_number(true).multi_line(multiline).binary_detection(det).before_context(ctx).after_context(ctx).build();
    let out = if mode == 3 {
        let mut p = JSONBuilder::new().build(vec![]);
        let r = if reader { searcher.search_reader(&m, input, p.sink(&m)) } else { searcher.search_slice(&m, input, p.sink(&m)) };
        if r.is_err() { return Some("search failed".into()); }
        // JSON escapes a NUL as \u0000 or base64: decode every text it reports
        let out = p.into_inner();
        let mut all = vec![];
        for line in String::from_utf8_lossy(&out).lines() {
            if let Ok(msg) = serde_json::from_str::<serde_json::Value>(line) {
                if let Some(b) = data_bytes(&msg["data"]["lines"]) { all.extend(b); }
            }
        }
        all
    } else {
        let b = StandardBuilder::new();
        let mut p = b.build(NoColor::new(vec![]));
        let r = if reader { searcher.search_reader(&m, input, p.sink(&m)) } else { searcher.search_slice(&m, input, p.sink(&m)) };
        if r.is_err() { return Some("search failed".into()); }
        p.into_inner().into_inner()
    };
    if out.contains(&0) {
        return Some(format!("binary detection {} / {} strategy / context {}: a NUL byte of the input was written: {:?}", if quit { "quit" } else { "convert" }, if reader { "reader" } else { "slice" }, ctx, String::from_utf8_lossy(&out)));
    }
    None
}

fn hex(b: &[u8]) -> String {
    if b.is_empty() { return "-".to_string(); }
    b.iter().map(|x| format!("{:02x}", x)).collect()
}
fn unhex(h: &str) -> Vec<u8> {
    if h == "-" { return vec![]; }
    (0..h.len() / 2).map(|i| u8::from_str_radix(&h[2 * i..2 * i + 2], 16).unwrap()).collect()
}
const MODES: [&str; 4] = ["-n -b --column", "--vimgrep", "-o -n -b --column", "--json"];
fn report(pi: usize, input: &[u8], mode: u32, ml: bool, what: &str) {
    println!("FAILING CASE printout pattern={:?} input={:?} (bytes {}) mode=`{}`{}: {}", PATTERNS[pi], String::from_utf8_lossy(input), hex(input), MODES[mode as usize], if ml { " -U" } else { "" }, what);
    println!("VERIF_REPLAY_PATTERN={} VERIF_REPLAY_INPUT={} VERIF_REPLAY_MODE={} VERIF_REPLAY_MULTILINE={}", pi, hex(input), mode, ml as u8);
}
fn oracle(pi: usize) -> regex::bytes::Regex {
    regex::bytes::RegexBuilder::new(PATTERNS[pi]).multi_line(true).unicode(true).build().unwrap()
}

fn inputs_over(alpha: &[u8], max: usize) -> Vec<Vec<u8>> {
    let mut out: Vec<Vec<u8>> = vec![vec![]];
    let mut cur: Vec<Vec<u8>> = vec![vec![]];
    for _ in 0..max {
        let mut next = vec![];
        for w in &cur { for &b in alpha { let mut v = w.clone(); v.push(b); next.push(v); } }
        out.extend(next.iter().cloned());
        cur = next;
    }
    out
}

fn run_suite(suite: &str, maxlen: usize) -> i32 {
    let ins = if suite == "nul" { inputs_over(&[b'a', b'b', 0, b'\n'], maxlen) } else { inputs_over(&[b'a', b'b', b'\n'], maxlen) };
    let pats: Vec<usize> = (0..PATTERNS.len()).filter(|&i| i != 6).collect(); // not the 0xFF pattern
    let next = std::sync::atomic::AtomicUsize::new(0);
    let best: std::sync::Mutex<Option<(usize, String, String)>> = std::sync::Mutex::new(None);
    let threads = std::thread::available_parallelism().map(|x| x.get()).unwrap_or(4).min(16);
    std::thread::scope(|s| {
        for _ in 0..threads {
            s.spawn(|| loop {
                let k = next.fetch_add(1, std::sync::atomic::Ordering::SeqCst);
                if k >= ins.len() { break; }
                if let Some(ref b) = *best.lock().unwrap() { if b.0 < k { break; } }
                let inp = &ins[k];
                for &pi in &pats {
                    let re = oracle(pi);
                    let mut fail: Option<(String, String)> = None;
                    if suite == "limit" {
                        for ml in [false, true] { for pt in [false, true] {
                            if fail.is_none() {
                                if let Some(w) = check_json_framing(PATTERNS[pi], inp, ml, pt) {
                                    fail = Some((w, format!("VERIF_REPLAY_SUITE=framing VERIF_REPLAY_PATTERN={} VERIF_REPLAY_INPUT={} VERIF_REPLAY_MULTILINE={} VERIF_REPLAY_N={}", pi, hex(inp), ml as u8, pt as u8)));
                                }
                            }
                        }}
                    }
                    if suite == "limit" && fail.is_none() {
                        // (without -U only: under -U the limit counts delivered blocks, which may hold several adjacent lines)
                        'l: for json in [false, true] { for ml in [false] { for n in 1..3u64 { for a in 0..2usize {
                            if let Some(w) = check_limit(PATTERNS[pi], &re, inp, json, ml, n, a) {
                                fail = Some((w, format!("VERIF_REPLAY_SUITE=limit VERIF_REPLAY_PATTERN={} VERIF_REPLAY_INPUT={} VERIF_REPLAY_JSON={} VERIF_REPLAY_MULTILINE={} VERIF_REPLAY_N={} VERIF_REPLAY_A={}", pi, hex(inp), json as u8, ml as u8, n, a)));
                                break 'l;
                            }
                        }}}}
                    } else if inp.contains(&0) {
                        'n: for mode in [0u32] { for ml in [false, true] { for quit in [false, true] { for rd in [false, true] { for ctx in 0..2usize {
                            if let Some(w) = check_nul(PATTERNS[pi], inp, mode, ml, quit, rd, ctx) {
                                fail = Some((w, format!("VERIF_REPLAY_SUITE=nul VERIF_REPLAY_PATTERN={} VERIF_REPLAY_INPUT={} VERIF_REPLAY_MODE={} VERIF_REPLAY_MULTILINE={} VERIF_REPLAY_QUIT={} VERIF_REPLAY_READER={} VERIF_REPLAY_CTX={}", pi, hex(inp), mode, ml as u8, quit as u8, rd as u8, ctx)));
                                break 'n;
                            }
                        }}}}}
                    }
                    if let Some((w, envline)) = fail {
                        let mut b = best.lock().unwrap();
                        if b.as_ref().map_or(true, |o| k < o.0) {
                            *b = Some((k, format!("FAILING CASE printout/{} pattern={:?} input={:?} (bytes {}): {}", suite, PATTERNS[pi], String::from_utf8_lossy(inp), hex(inp), w), envline));
                        }
                        break;
                    }
                }
            });
        }
    });
    match best.into_inner().unwrap() {
        Some((_, msg, envline)) => { println!("{}", msg); println!("{}", envline); 1 }
        None => { println!("printout twin suite={} len<={}: all cases agree", suite, maxlen); 0 }
    }
}

fn main() {
    if let Ok(suite) = std::env::var("VERIF_REPLAY_SUITE") {
        let g = |k: &str| std::env::var(k).ok().and_then(|v| v.parse::<usize>().ok()).unwrap_or(0);
        let pi = g("VERIF_REPLAY_PATTERN");
        let inp = unhex(&std::env::var("VERIF_REPLAY_INPUT").unwrap());
        let r = if suite == "framing" { check_json_framing(PATTERNS[pi], &inp, g("VERIF_REPLAY_MULTILINE") != 0, g("VERIF_REPLAY_N") != 0) } else if suite == "limit" { check_limit(PATTERNS[pi], &oracle(pi), &inp, g("VERIF_REPLAY_JSON") != 0, g("VERIF_REPLAY_MULTILINE") != 0, g("VERIF_REPLAY_N") as u64, g("VERIF_REPLAY_A")) }
                else { check_nul(PATTERNS[pi], &inp, g("VERIF_REPLAY_MODE") as u32, g("VERIF_REPLAY_MULTILINE") != 0, g("VERIF_REPLAY_QUIT") != 0, g("VERIF_REPLAY_READER") != 0, g("VERIF_REPLAY_CTX")) };
        match r { Some(w) => { println!("FAILING CASE printout/{} pattern={:?} input={:?}: {}", suite, PATTERNS[pi], String::from_utf8_lossy(&inp), w); std::process::exit(1); } None => { println!("replayed case agrees"); return; } }
    }
    if let Ok(p) = std::env::var("VERIF_REPLAY_PATTERN") {
        let pi: usize = p.parse().unwrap();
        let input = unhex(&std::env::var("VERIF_REPLAY_INPUT").unwrap());
        let mode: u32 = std::env::var("VERIF_REPLAY_MODE").unwrap().parse().unwrap();
        let ml = std::env::var("VERIF_REPLAY_MULTILINE").map(|v| v == "1").unwrap_or(false);
        match check(PATTERNS[pi], &oracle(pi), &input, mode, ml) {
            Some(w) => { report(pi, &input, mode, ml, &w); std::process::exit(1); }
            None => { println!("replayed case agrees"); return; }
        }
    }
    let maxlen: usize = std::env::var("VERIF_PRINT_LEN").ok().and_then(|s| s.parse().ok()).unwrap_or(5);
    let suite = std::env::var("VERIF_PRINT_SUITE").unwrap_or_default();
    if suite == "limit" || suite == "nul" {
        std::process::exit(run_suite(&suite, maxlen));
    }
    let survey = std::env::var("VERIF_PRINT_ALL").is_ok();
    let ins = inputs(maxlen);
    let items: Vec<(usize, u32, bool)> = (0..PATTERNS.len()).flat_map(|p| (0..4u32).flat_map(move |m| [false, true].into_iter().map(move |u| (p, m, u)))).collect();
    eprintln!("printout: {} patterns x 4 modes x (-U off/on) x {} inputs", PATTERNS.len(), ins.len());
    let next = std::sync::atomic::AtomicUsize::new(0);
    let best: std::sync::Mutex<Option<(usize, usize, String)>> = std::sync::Mutex::new(None);
    let threads = std::thread::available_parallelism().map(|x| x.get()).unwrap_or(4).min(16);
    std::thread::scope(|s| {
        for _ in 0..threads {
            s.spawn(|| loop {
                let k = next.fetch_add(1, std::sync::atomic::Ordering::SeqCst);
                if k >= items.len() { break; }
                let (pi, mode, ml) = items[k];
                let re = oracle(pi);
                for (ii, inp) in ins.iter().enumerate() {
                    if let Some(w) = check(PATTERNS[pi], &re, inp, mode, ml) {
                        if survey { println!("ALL pattern={:?} mode={} ml={} input={:?} {}", PATTERNS[pi], mode, ml, String::from_utf8_lossy(inp), w); continue; }
                        let mut b = best.lock().unwrap();
                        if b.as_ref().map_or(true, |o| (k, ii) < (o.0, o.1)) { *b = Some((k, ii, w)); }
                        break;
                    }
                }
            });
        }
    });
    match best.into_inner().unwrap() {
        Some((k, ii, w)) => { report(items[k].0, &ins[ii], items[k].1, items[k].2, &w); std::process::exit(1); }
        None => println!("printout twin len<={}: all cases agree", maxlen),
    }
}
