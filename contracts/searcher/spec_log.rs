// ===== SPEC: predicates and lemmas about the ghost event log (no executable code) =====
/// `new` still holds every match that `old` held (the log only grows).  Transitive for free:
/// the quantifier chains along `delivered` terms.
pub(crate) open spec fn grows(old_log: Seq<Ev>, new_log: Seq<Ev>) -> bool {
    old_log.len() <= new_log.len()
    && forall|from: int, off: int| #[trigger] delivered(old_log, from, off) ==> delivered(new_log, from, off)
}

pub(crate) broadcast proof fn lemma_grows_push(a: Seq<Ev>, e: Ev)
    ensures grows(a, #[trigger] a.push(e)),
{
    reveal(delivered);
    assert forall|from: int, off: int| #[trigger] delivered(a, from, off) implies delivered(a.push(e), from, off) by {
        let k = choose|k: int| 0 <= from <= k < a.len() && (#[trigger] a[k] matches Ev::Matched { off: o, .. } && o == off);
        assert(a.push(e)[k] == a[k]);
    }
}

pub(crate) broadcast proof fn lemma_grows_add(a: Seq<Ev>, c: Seq<Ev>)
    ensures grows(a, #[trigger] (a + c)),
{
    reveal(delivered);
    assert forall|from: int, off: int| #[trigger] delivered(a, from, off) implies delivered(a + c, from, off) by {
        let k = choose|k: int| 0 <= from <= k < a.len() && (#[trigger] a[k] matches Ev::Matched { off: o, .. } && o == off);
        assert((a + c)[k] == a[k]);
    }
}

/// new == old ++ [Binary notice]? ++ brk ++ [ev]   (the notice only if binary detection is on)
#[verifier::opaque]
pub(crate) open spec fn appended(old_log: Seq<Ev>, new_log: Seq<Ev>, bin_allowed: bool, brk: Seq<Ev>, ev: Ev) -> bool {
    let n = new_log.len() - old_log.len() - brk.len() - 1;
    &&& (n == 0 || (n == 1 && bin_allowed && new_log[old_log.len() as int] is Binary))
    &&& new_log[new_log.len() - 1] == ev
    &&& (brk.len() == 1 ==> new_log[new_log.len() - 2] == brk[0])
    &&& brk.len() <= 1
}

#[verifier::opaque]
pub(crate) open spec fn delivered(log: Seq<Ev>, from: int, off: int) -> bool {
    exists|k: int| 0 <= from <= k < log.len() && (#[trigger] log[k] matches Ev::Matched { off: o, .. } && o == off)
}

/// the last event of the log is a match at offset off
pub(crate) proof fn lemma_delivered_last(log: Seq<Ev>, from: int, off: int)
    requires 0 <= from < log.len(), log[log.len() - 1] matches Ev::Matched { off: o, .. } && o == off,
    ensures delivered(log, from, off),
{
    reveal(delivered);
    let k = log.len() - 1;
    assert(log[k] matches Ev::Matched { off: o, .. } && o == off);
}

/// every event appended after index `from` that carries a line lies in [lo, hi) (absolute offsets),
/// in increasing order without overlap  -- input order, no line twice
pub(crate) open spec fn ordered_from(log: Seq<Ev>, from: int, lo: int) -> bool
    decreases log.len() - from,
{
    if from >= log.len() {
        true
    } else {
        match log[from] {
            Ev::Matched { off, bytes, .. } => lo <= off && ordered_from(log, from + 1, off + bytes.len()),
            Ev::Ctx { off, bytes, .. } => lo <= off && ordered_from(log, from + 1, off + bytes.len()),
            _ => ordered_from(log, from + 1, lo),
        }
    }
}

pub(crate) broadcast group group_log {
    lemma_grows_push, lemma_grows_add,
}

pub(crate) proof fn lemma_delivered_from(log: Seq<Ev>, f1: int, f2: int, off: int)
    requires delivered(log, f2, off), 0 <= f1 <= f2,
    ensures delivered(log, f1, off),
{
    reveal(delivered);
    let k = choose|k: int| 0 <= f2 <= k < log.len() && (#[trigger] log[k] matches Ev::Matched { off: o, .. } && o == off);
    assert(0 <= f1 <= k < log.len() && (log[k] matches Ev::Matched { off: o, .. } && o == off));
}
