// `log::warn!` etc.: assumed to have no effect on results
pub mod log {
    macro_rules! warn_ { ($($t:tt)*) => {}; }
    pub(crate) use warn_ as warn;
    macro_rules! trace_ { ($($t:tt)*) => {}; }
    pub(crate) use trace_ as trace;
    macro_rules! debug_ { ($($t:tt)*) => {}; }
    pub(crate) use debug_ as debug;
}
