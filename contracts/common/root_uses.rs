pub use crate::grep_matcher::{LineTerminator, Match};
