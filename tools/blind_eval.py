#!/usr/bin/env python3
"""blind_eval.py <out.json> <PID-x>...: quick check of a property against a scratch worktree with an INCOMING (not yet confirmed)
seed applied; used to record what the machinery said about a fresh seed before anything was changed in response."""
import json, os, re, subprocess, sys
VERIF = '/verif'; WT = os.environ.get('BLIND_WT', '/tmp/blindeval')
out = sys.argv[1]; ids = sys.argv[2:]
res = json.load(open(out)) if os.path.exists(out) else {}
subprocess.run('git -C /repo worktree remove --force %s' % WT, shell=True, stdout=subprocess.DEVNULL, stderr=subprocess.DEVNULL)
subprocess.run('git -C /repo worktree add -q %s HEAD' % WT, shell=True, check=True)
env = dict(os.environ, VERIF_REPO=WT, VERIF_EVIDENCE_DIR=WT + '_evidence')
head = subprocess.run('git -C /verif rev-parse --short HEAD', shell=True, stdout=subprocess.PIPE, text=True).stdout.strip()
try:
    for sid in ids:
        prop, x = sid.split('-')
        subprocess.run('git checkout -q -- . && git clean -fdq crates', cwd=WT, shell=True)
        a = subprocess.run('git apply %s/seeded_incoming/%s/%s.patch' % (VERIF, prop, x), cwd=WT, shell=True)
        if a.returncode != 0:
            res[sid] = {'verdict': 'patch does not apply'}; continue
        r = subprocess.run(['python3', VERIF + '/tools/check.py', prop, '--tier', 'quick'], cwd=VERIF, env=env, stdout=subprocess.PIPE, stderr=subprocess.STDOUT, text=True)
        res[sid] = {'rc': r.returncode, 'verdict': {0: 'MISSED', 1: 'DETECTED', 2: 'UNDECIDED'}.get(r.returncode, '?'),
                    'failed_obligations': sorted(set(re.findall(r'obligation failed: (\S+)', r.stdout)))[:6],
                    'undecided': [u[:200] for u in re.findall(r'UNDECIDED unit=\S+ reason=(.*)', r.stdout)][:2],
                    'verif_commit': head}
        print(sid, res[sid]['verdict'], res[sid]['failed_obligations'][:2], res[sid]['undecided'][:1]); sys.stdout.flush()
        json.dump(res, open(out, 'w'), indent=1)
finally:
    subprocess.run('git -C /repo worktree remove --force %s' % WT, shell=True)
    subprocess.run('rm -rf ' + WT + '_evidence', shell=True)
