#!/usr/bin/env python3
"""Regenerate MANIFEST.json from contracts/props.json + the table below."""
import json
import os

VERIF = os.path.dirname(os.path.dirname(os.path.abspath(__file__)))
props = json.load(open(os.path.join(VERIF, 'contracts', 'props.json')))

NA = {
 'C04': "oracle is git itself; mechanism is str slicing/format! feeding GlobBuilder/GlobSet (regex inside) and directory pruning in walk.rs: Verus has no str byte reasoning and cannot import globset, Kani cannot build a GlobSet; a contract on the flag-parsing fragment alone would not decide 'what git says'",
 'C05': "precedence lives in Ignore::matched/matched_ignore, written as iterator adapters over Arc-linked per-directory matchers holding GlobSets and Path arithmetic: outside Verus's subset, and the matcher chain cannot be built symbolically in CBMC within memory",
 'C06': "both skipping functions take DirEntry/fs::Metadata/dyn Fn values only the file system can construct; a relational (serial == parallel) postcondition needs both bodies in one verifier, which neither tool can host",
 'C07': "quantifies over thread schedules; Kani has no threads and Verus concurrency needs its own atomic/permission types, i.e. a rewrite of Stack/Worker (a model, which is a different family)",
 'C08': "schedules x whole-process output; no function-level contract expresses 'stdout is a permutation of per-file blocks'",
 'C10': "relational property across three printer implementations and process exit status; bodies are closure/RefCell/trait-object heavy and the relation depends on the regex engine's iteration semantics for empty matches",
 'C11': "language inclusion over regex_syntax::hir::Hir (foreign recursive type behind iterator adapters): Verus cannot import it, Kani does not terminate on Hir constructors (spiked, 25 min)",
 'C17': "the claim is about encoding_rs/encoding_rs_io transcoding; ripgrep's own part is a two-line routing decision that cannot carry 'equals the UTF-8 transcoding'",
}
PENDING = "planned under contract-based verification (see DESIGN.md section 6) but the unit is not finished; not claimed until its obligations are discharged on every run"

TEXT = {
 'C01': ("Deductive proof (Verus/Z3), for all buffers and every Matcher satisfying the documented trait contract, that the line searcher's fast, slow and inverted paths deliver a line as a match only if the pattern selects it (precondition of Core::sink_matched) and drop no selected line (postconditions of find_by_line_fast / match_by_line_* / SliceByLine::run); unbounded in input length and iteration count. The trait contract itself is an assumption; for the real grep-regex matcher it is validated by a bounded native enumeration (pattern strings up to 4 tokens and regex ASTs up to 4 nodes, haystacks up to 3-5 bytes, plain/-i/-w/-x/-S), never counted as proved.",
         "contract-based deductive verification: Verus contracts spliced into the real functions of lines.rs/core.rs/glue.rs extracted from /repo on every run"),
 'C02': ("Deductive proof (Verus/Z3), for every read history and buffer capacity allowed by the line-buffer contract, that rolling and refilling preserve the searcher's representation invariant and offset/line-number bookkeeping (Core::roll, ReadByLine::fill/run), with the same per-buffer Core contracts discharged for the slice and reader strategies; strategy routing predicate multi_line_with_matcher proved against its spec. A bounded native enumeration (inputs up to 5 bytes, slow and fast line path, passthru, stop-on-nonmatch, reader chunks 1..2) compares reader and slice with a grep reference model; one listed known finding (byte count reported by the reader after an early stop).",
         "contract-based deductive verification (Verus) of Core::roll, ReadByLine::{fill,run}, SliceByLine::run, Searcher::multi_line_with_matcher; LineBuffer operations in unit linebuf"),
 'C03': ("Deductive proof (Verus/Z3) of the grep-model bookkeeping of the searcher for all inputs: delivery order/uniqueness as preconditions of every sink_* call, true byte offset and 1-based line number of every event (count_lines, roll rebasing), separator logic, context reach, byte count of a completed slice search; context is sunk only ahead of a line range that is delivered as a match (this obligation exposed the phantom before-context of the unreported match at EOF in multi-line mode, now repaired); line-location functions (locate, preceding, LineStep) proved against functional specs; line-buffer operations of the reader strategy are part of this check.",
         "contract-based deductive verification (Verus), functional specs for lines.rs, representation invariant + event coordinates for Core"),
 'C13': ("Deductive proof (Verus/Z3) of the multi-line strategy for all inputs and every Matcher satisfying the trait contract: the next match is the leftmost match at or after the position over the WHOLE input (postcondition taken from the property; it exposed the sub-slice defect now fixed), advance, the merge rule for touching/overlapping line ranges, delivery of a pending range exactly when the next match's lines start after it, protocol and ordering; one listed known finding for inverted mode. A bounded native enumeration of the real strategy with the real grep-regex matcher (20 patterns, inputs up to 6/7 bytes, slice/reader/file strategies, passthru, a refusing sink) checks the property's statement end to end and supplies failing inputs.",
         "contract-based deductive verification (Verus) of MultiLine::{find,advance,sink,sink_matched_inverted,sink_matched,sink_context,run}"),
 'C14': ("Deductive proof (Verus/Z3) that, with binary detection on, the slice strategies never deliver a match or context range containing the quit byte and that the quit byte in an examined range always stops the caller (detect_binary, sink_* postconditions).",
         "contract-based deductive verification (Verus) of Core::detect_binary and the sink_* functions"),
 'C16': ("Deductive proof (Verus/Z3) of the Sink protocol: 'not refused, not errored, not finished' is a precondition of every Sink method on the trait, hence an obligation at every call site in core.rs/glue.rs for every stop index; run functions are proved to signal finish on every Ok return and never after a sink error.",
         "contract-based deductive verification (Verus): protocol preconditions on the Sink trait checked at every call site"),
}

TEXT['C19'] = ("Kani/CBMC on the real interpolate.rs: complete proof of is_valid_cap_letter over all byte values; bounded comparison (all templates up to 4 bytes quick / 6 bytes thorough) of find_cap_ref with an executable form of the regex library's documented reference grammar; one listed known finding (braced references, isolated in its own harness so that any other disagreement is still reported); bounded native enumeration of the whole expansion loop of interpolate (templates up to 5 bytes over 8 byte values). The printers' replacement path (Replacer) is not verified.",
               "bounded function-vs-spec-function check with Kani on the real source (include!); Verus cannot take this file (closures with reference patterns, str parsing)")
TEXT['C15'] = ("Deductive proof (Verus/Z3) that main.rs::run computes the exit status demanded by the property (0 iff matched and (quiet or no error); 2 iff not that and an error occurred; else 1; a parse error is an Err) for every parse result, mode and value of the match/quiet/error facts; the err_message!/message!/ignore_message! macros are run natively for all four states of the message switches (err_message! always records the error); search_preprocessor / search_decompress keep the broken-pipe kind of a failed search (Verus). The search loops of main.rs (walker iterators, parallel closures) are outside both verifiers: they are covered only by a process-level scenario table run against the built binary (match / no match / unreadable or missing file / --quiet / invalid pattern / --files / dangling symlink / consumer closing the pipe; -j1 and -j2) and, for the printers, by a bounded enumeration of the pipe closing at every byte position.",
               "contract-based deductive verification (Verus) of crates/core/main.rs::run over an abstract environment")
TEXT['C18'] = ("Deductive proof (Verus/Z3): CommandReader::close for every exit status / wait error / stderr content (waits exactly once, Ok iff success or (early stop and empty stderr), failure surfaces otherwise, idempotent); CommandReader::read records EOF before closing; SearchWorker::search_preprocessor / search_decompress return a result only if both the search of the command's output and close succeeded; should_preprocess / should_decompress equal the selection predicates and SearchWorker::search routes every path to the strategy whose predicate holds.",
               "contract-based deductive verification (Verus) of crates/cli/src/process.rs CommandReader::{close,read} and crates/core/search.rs SearchWorker::{search,should_preprocess,should_decompress,search_preprocessor,search_decompress} over an abstract environment")
TEXT['C09'] = ("Deductive proof (Verus/Z3) of the decimal rendering used for every printed line number, column and byte offset (DecimalFormatter, all u64 values), plus the searcher-side proof that the coordinates and bytes handed to the printers are the input's own (Core::sink_* postconditions). The printers' write paths are NOT proved; they are covered by bounded native enumerations only: printed lines / line numbers / byte offsets / columns and JSON texts, submatches, base64 and framing recomputed from the input (8 patterns, all inputs over {a,b,0xFF,newline} up to 6/8 bytes, four output modes, with and without -U; one listed known finding for --column in multi-line blocks), and base64_standard on every input of 0..3 bytes.",
               "contract-based deductive verification (Verus): DecimalFormatter against a recursive decimal spec; event coordinates from the searcher unit")
TEXT['C12'] = ("Bounded only. Kani/CBMC (all byte paths up to 5 bytes): globset's candidate decomposition (pathutil::file_name, file_name_ext), cut mechanically from the real file, against an executable spec; counterexamples are replayed natively. Native bounded enumeration of the real globset crate: every glob up to 3 (quick) / 4 (thorough) tokens x 16 option combinations alone in a set, and every ordered pair of a 492-glob pool, against all paths up to 4 bytes over {a,b,.,/,-,A}: the set answers exactly like its member globs. Two defects found and repaired (paths ending in a dot; final component '.' or '..'). That a single glob means what is documented (parser, regex translation) is not verified.",
               "bounded function-vs-spec-function check with Kani on mechanically extracted real functions + bounded native enumeration with the property's own statement as oracle")
checks = []
for pid in sorted(props):
    text, tech = TEXT.get(pid, ("Deductive proof (Verus) of the contracted functions listed in evidence.", "contract-based deductive verification (Verus)"))
    checks.append({
        'property_id': pid,
        'quick_cmd': 'python3 tools/check.py %s --tier quick' % pid,
        'thorough_cmd': 'python3 tools/check.py %s --tier thorough' % pid,
        'evidence_file': '/verif/evidence/%s.json' % pid,
        'replay_cmd_template': 'python3 tools/replay.py {path}',
        'engine': 'verus+kani',
        'level_claimed': {'category': props[pid].get('level', 'proof'), 'text': text, 'design_ref': 'DESIGN.md section 6'},
        'level_note': ' | '.join(props[pid].get('assumptions', [])),
        'technique': tech,
    })
all_ids = ['C%02d' % i for i in range(1, 20)]
na = []
for pid in all_ids:
    if pid in props:
        continue
    na.append({'property_id': pid, 'reason': NA.get(pid, PENDING)})
m = {
 'version': 1,
 'setup_cmd': 'python3 tools/setup.py',
 'hooks': {'guard': 'none',
           'enable': 'no hooks: contracts live in /verif and are spliced (insertion-only) into functions extracted from /repo\'s working tree on every run',
           'baseline_off_cmd': 'cd /repo && cargo test --workspace --no-fail-fast --offline',
           'source_commits': [], 'add_only': True},
 'engines': [
   {'name': 'verus', 'path': 'tools/vrun.py', 'serves_properties': sorted(props), 'kind_free_text': 'Verus 0.2026.09.13 (Z3) on single-file units assembled by tools/extract.py from /repo + contracts/'},
   {'name': 'kani', 'path': 'tools/kanirun.py', 'serves_properties': sorted(props), 'kind_free_text': 'Kani 0.68 / CBMC: complete loop-free proofs and bounded twins; counterexample search for failed Verus obligations'},
 ],
 'checks': checks,
 'not_applicable': na,
 'notes': 'exit 0 = all obligations discharged; exit 1 = an obligation that verifies on the unchanged tree failed (VIOLATION line); exit 2 = undecided (lost anchor / unsupported construct / rlimit / new trusted item), never an alarm.',
}
json.dump(m, open(os.path.join(VERIF, 'MANIFEST.json'), 'w'), indent=1)
print('MANIFEST.json: %d checks, %d not_applicable' % (len(checks), len(na)))
