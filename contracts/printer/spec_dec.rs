// ===== SPEC: decimal rendering of a natural number (no executable code) =====
/// most significant digit first, no leading zero except for 0 itself
pub open spec fn dec(n: nat) -> Seq<u8>
    decreases n,
{
    if n < 10 { seq![(48 + n) as u8] } else { dec(n / 10).push((48 + n % 10) as u8) }
}

pub open spec fn pow10(k: nat) -> nat
    decreases k,
{
    if k == 0 { 1 } else { 10 * pow10((k - 1) as nat) }
}

pub proof fn lemma_pow10_20()
    ensures pow10(20) == 100000000000000000000nat,
{
    reveal_with_fuel(pow10, 21);
}

pub proof fn lemma_div10_pow(n: nat, k: nat)
    ensures (n / 10) * pow10(k + 1) <= n * pow10(k),
{
    assert(pow10(k + 1) == 10 * pow10(k));
    assert((n / 10) * 10 <= n);
    assert((n / 10) * (10 * pow10(k)) <= n * pow10(k)) by (nonlinear_arith)
        requires (n / 10) * 10 <= n;
}

pub proof fn lemma_pow10_pos(k: nat)
    ensures pow10(k) >= 1,
    decreases k,
{
    if k > 0 { lemma_pow10_pos((k - 1) as nat); }
}
