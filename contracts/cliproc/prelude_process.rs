// ===== TRUSTED (T-proc): std::process as seen by crates/cli/src/process.rs =====
// std::process::{Child, ChildStdout, ExitStatus} are modelled by stand-in types with the same public
// shape (`Child.stdout: Option<ChildStdout>`, `Child::wait`, `ExitStatus::success`).  The outcome of
// waiting for the child and the contents of its stderr are unconstrained ghost values: the contract of
// CommandReader::close is proved for every exit status 0..255, every wait error, every stderr content.
pub mod process {
    use vstd::prelude::*;
    use crate::*;
    #[derive(Debug)]
    pub struct ChildStdout { _p: () }
    // reading the child's stdout: any number of bytes up to the buffer length, or an error
    #[verifier::external]
    impl std::io::Read for ChildStdout {
        fn read(&mut self, buf: &mut [u8]) -> std::io::Result<usize> { unimplemented!() }
    }
    pub struct ChildStderr { _p: () }
    pub struct ExitStatus { pub ok: bool }
    impl ExitStatus {
        pub fn success(&self) -> (r: bool) ensures r == self.ok { self.ok }
    }
    pub struct Child {
        pub stdout: Option<ChildStdout>,
        pub waits: Ghost<nat>,
        /// ghost identity of the child process (what waiting yields depends on the process only)
        pub id: Ghost<int>,
    }
    pub uninterp spec fn proc_wait_err(id: int) -> bool;
    pub uninterp spec fn proc_success(id: int) -> bool;
    #[verifier::external]
    impl std::fmt::Debug for Child {
        fn fmt(&self, f: &mut std::fmt::Formatter<'_>) -> std::fmt::Result { Ok(()) }
    }
    impl Child {
        /// ghost: what waiting for this child yields (io error, or exit status success / failure)
        pub open spec fn g_wait_err(&self) -> bool { proc_wait_err(self.id@) }
        pub open spec fn g_success(&self) -> bool { proc_success(self.id@) }

        #[verifier::external_body]
        pub fn wait(&mut self) -> (r: std::io::Result<ExitStatus>)
            ensures
                final(self).stdout == old(self).stdout, final(self).waits@ == old(self).waits@ + 1,
                (r is Err) == old(self).g_wait_err(),
                r matches Ok(s) ==> s.ok == old(self).g_success(),
                final(self).id@ == old(self).id@,
        { unimplemented!() }
    }
}

use std::io;

#[verifier::external_type_specification]
#[verifier::external_body]
pub struct ExIoError(std::io::Error);

/// the helper that collects the child's stderr (thread or synchronous read), opaque
#[verifier::external_body]
#[derive(Debug)]
pub struct StderrReader { _p: () }

impl StderrReader {
    /// ghost: the child wrote nothing to stderr
    pub uninterp spec fn g_empty(&self) -> bool;
    pub uninterp spec fn reads(&self) -> nat;
    #[verifier::external_body]
    pub(crate) fn read_to_end(&mut self) -> (r: CommandError)
        ensures r.is_empty_v() == old(self).g_empty(), final(self).reads() == old(self).reads() + 1,
            final(self).g_empty() == old(self).g_empty(),
    { unimplemented!() }
}

// `drop(x)`: std::mem::drop has no effect on anything else
pub assume_specification<T>[ std::mem::drop::<T> ](x: T)
;

