//! Verification shim for the `memchr` crate: plain loops with the documented results
//! (the real crate dispatches to SIMD through inline assembly, which CBMC cannot execute).
pub fn memchr(needle: u8, haystack: &[u8]) -> Option<usize> {
    let mut i = 0;
    while i < haystack.len() {
        if haystack[i] == needle {
            return Some(i);
        }
        i += 1;
    }
    None
}
pub fn memrchr(needle: u8, haystack: &[u8]) -> Option<usize> {
    let mut i = haystack.len();
    while i > 0 {
        i -= 1;
        if haystack[i] == needle {
            return Some(i);
        }
    }
    None
}
pub struct Memchr<'h> {
    needle: u8,
    hay: &'h [u8],
    pos: usize,
}
pub fn memchr_iter<'h>(needle: u8, haystack: &'h [u8]) -> Memchr<'h> {
    Memchr { needle, hay: haystack, pos: 0 }
}
impl<'h> Iterator for Memchr<'h> {
    type Item = usize;
    fn next(&mut self) -> Option<usize> {
        while self.pos < self.hay.len() {
            let p = self.pos;
            self.pos += 1;
            if self.hay[p] == self.needle {
                return Some(p);
            }
        }
        None
    }
}
