//! C15, process level (NOT a proof, not even an enumeration: a fixed table of scenarios run against the real
//! binary): `rg` is built from /repo's working tree (cargo build --offline, target dir under /verif/build) and
//! its exit status, stdout and stderr are compared with the property's statement:
//!   0 iff something matched and no error occurred, or --quiet found a match; 1 iff nothing matched and no
//!   error; 2 iff an error occurred; an unreadable file yields a diagnostic without suppressing the other
//!   files' results; an invalid pattern yields 2 and no results; a consumer closing the pipe ends the run
//!   with status 0 and no diagnostic -- single- and multi-threaded, text and --json, with and without --pre.
//! This is the only check that reaches crates/core/main.rs::{search, search_parallel, files, files_parallel}
//! (walker iterators and closures, outside both verifiers).
use std::io::Read;
use std::path::{Path, PathBuf};
use std::process::{Command, Stdio};

struct Out { status: i32, stdout: Vec<u8>, stderr: Vec<u8> }

fn run(rg: &Path, dir: &Path, args: &[&str]) -> Out {
    let o = Command::new(rg).args(args).current_dir(dir).stdin(Stdio::null()).output().expect("rg runs");
    Out { status: o.status.code().unwrap_or(-1), stdout: o.stdout, stderr: o.stderr }
}

/// the consumer reads `take` bytes of stdout and closes the pipe
fn run_closed_pipe(rg: &Path, dir: &Path, args: &[&str], take: usize) -> Out {
    let mut c = Command::new(rg).args(args).current_dir(dir).stdin(Stdio::null()).stdout(Stdio::piped()).stderr(Stdio::piped()).spawn().expect("rg runs");
    let mut so = c.stdout.take().unwrap();
    let mut buf = vec![0u8; take];
    if take > 0 { let _ = so.read_exact(&mut buf); }
    drop(so);
    let mut stderr = vec![];
    c.stderr.take().unwrap().read_to_end(&mut stderr).unwrap();
    let st = c.wait().unwrap();
    Out { status: st.code().unwrap_or(-1), stdout: buf, stderr }
}

fn main() {
    let repo = PathBuf::from(env!("VERIF_REPO"));
    let here = std::env::current_dir().unwrap();
    let target = PathBuf::from(std::env::var("VERIF_RG_TARGET").unwrap_or_else(|_| here.join("rg_target").to_string_lossy().into_owned()));
    let b = Command::new("cargo").args(["build", "--offline", "--quiet", "--manifest-path"]).arg(repo.join("Cargo.toml"))
        .env("CARGO_TARGET_DIR", &target).output().expect("cargo runs");
    if !b.status.success() {
        println!("could not compile ripgrep: {}", String::from_utf8_lossy(&b.stderr));
        std::process::exit(3);
    }
    let rg = target.join("debug").join("rg");
    let dir = here.join("scratch_exitstatus");
    let _ = std::fs::remove_dir_all(&dir);
    std::fs::create_dir_all(dir.join("tree")).unwrap();
    std::fs::write(dir.join("tree/hit.txt"), "needle one\nhay\n").unwrap();
    std::fs::write(dir.join("tree/miss.txt"), "hay\nstraw\n").unwrap();
    std::fs::write(dir.join("hit.txt"), "needle one\nhay\n").unwrap();
    std::fs::write(dir.join("miss.txt"), "hay\nstraw\n").unwrap();
    std::fs::write(dir.join("big.txt"), "needle line of some length to fill the pipe quickly\n".repeat(60000)).unwrap();
    std::fs::write(dir.join("pre.sh"), "#!/bin/sh\ncat \"$1\"\n").unwrap();
    std::fs::write(dir.join("pre_noisy.sh"), "#!/bin/sh\necho 'a warning from the preprocessor' >&2\ncat \"$1\"\n").unwrap();
    #[cfg(unix)]
    { use std::os::unix::fs::PermissionsExt; std::fs::set_permissions(dir.join("pre_noisy.sh"), std::fs::Permissions::from_mode(0o755)).unwrap(); }
    #[cfg(unix)]
    { use std::os::unix::fs::PermissionsExt; std::fs::set_permissions(dir.join("pre.sh"), std::fs::Permissions::from_mode(0o755)).unwrap(); }
    // a file that can be opened but not read (EIO), independent of the user's privileges
    let unreadable = "/proc/self/mem";
    let have_unreadable = std::fs::File::open(unreadable).map(|mut f| { let mut b = [0u8; 1]; f.read(&mut b).is_err() }).unwrap_or(false);

    // a dangling symlink below the search root (only seen when following links)
    #[cfg(unix)]
    { std::fs::create_dir_all(dir.join("links/sub")).unwrap(); std::fs::write(dir.join("links/sub/hit.txt"), "needle one\n").unwrap();
      let _ = std::os::unix::fs::symlink("does-not-exist", dir.join("links/sub/dangling")); }
    // a compressed file for -z, if gzip is installed
    let have_gzip = Command::new("gzip").arg("--version").stdout(Stdio::null()).stderr(Stdio::null()).status().map(|s| s.success()).unwrap_or(false);
    if have_gzip {
        std::fs::write(dir.join("bigz.txt"), "needle line of some length to fill the pipe quickly\n".repeat(60000)).unwrap();
        let _ = Command::new("gzip").arg("-k").arg("bigz.txt").current_dir(&dir).status();
    }

    let mut failures: Vec<String> = vec![];
    let mut check = |name: String, o: &Out, want_status: i32, stdout_has: Option<&str>, stdout_empty: bool, stderr_empty: Option<bool>| {
        let so = String::from_utf8_lossy(&o.stdout);
        let se = String::from_utf8_lossy(&o.stderr);
        let mut why = vec![];
        if o.status != want_status { why.push(format!("exit status {} (the property demands {})", o.status, want_status)); }
        if let Some(s) = stdout_has { if !so.contains(s) { why.push(format!("stdout lacks {:?}", s)); } }
        if stdout_empty && !o.stdout.is_empty() { why.push(format!("stdout is not empty: {:?}", &so[..so.len().min(80)])); }
        match stderr_empty { Some(true) if !o.stderr.is_empty() => why.push(format!("a diagnostic was printed: {:?}", &se[..se.len().min(160)])), Some(false) if o.stderr.is_empty() => why.push("no diagnostic on stderr".to_string()), _ => {} }
        if !why.is_empty() { failures.push(format!("{}: {}", name, why.join("; "))); }
    };

    for j in ["-j1", "-j2"] {
        check(format!("rg {} needle tree (match, no error)", j), &run(&rg, &dir, &[j, "needle", "tree"]), 0, Some("needle one"), false, Some(true));
        check(format!("rg {} absent tree (no match, no error)", j), &run(&rg, &dir, &[j, "absent", "tree"]), 1, None, true, Some(true));
        check(format!("rg {} needle tree nonexistent (match + missing path)", j), &run(&rg, &dir, &[j, "needle", "tree", "nonexistent"]), 2, Some("needle one"), false, Some(false));
        check(format!("rg {} absent tree nonexistent (no match + missing path)", j), &run(&rg, &dir, &[j, "absent", "tree", "nonexistent"]), 2, None, true, Some(false));
        check(format!("rg {} -q needle tree nonexistent (--quiet found a match)", j), &run(&rg, &dir, &[j, "-q", "needle", "tree", "nonexistent"]), 0, None, true, None);
        check(format!("rg {} '(' tree (invalid pattern)", j), &run(&rg, &dir, &[j, "(", "tree"]), 2, None, true, Some(false));
        check(format!("rg {} --pre-glob '*.{{txt' needle tree (invalid glob flag, no --pre)", j), &run(&rg, &dir, &[j, "--pre-glob", "*.{txt", "needle", "tree"]), 2, None, true, Some(false));
        check(format!("rg {} -g '*.{{txt' needle tree (invalid glob flag)", j), &run(&rg, &dir, &[j, "-g", "*.{txt", "needle", "tree"]), 2, None, true, Some(false));
        check(format!("rg {} --files tree nonexistent", j), &run(&rg, &dir, &[j, "--files", "tree", "nonexistent"]), 2, Some("hit.txt"), false, Some(false));
        if have_unreadable {
            // the unreadable file comes FIRST: the other files' results must still be there
            check(format!("rg {} needle /proc/self/mem hit.txt (read error + match)", j), &run(&rg, &dir, &[j, "needle", unreadable, "hit.txt"]), 2, Some("needle one"), false, Some(false));
            check(format!("rg {} absent /proc/self/mem miss.txt (read error, no match)", j), &run(&rg, &dir, &[j, "absent", unreadable, "miss.txt"]), 2, None, true, Some(false));
            check(format!("rg {} --no-messages needle /proc/self/mem hit.txt", j), &run(&rg, &dir, &[j, "--no-messages", "needle", unreadable, "hit.txt"]), 2, Some("needle one"), false, Some(true));
        }
        // a consumer that closes the pipe: status 0, no diagnostic
        check(format!("rg {} needle big.txt | <closed after 10 bytes>", j), &run_closed_pipe(&rg, &dir, &[j, "needle", "big.txt"], 10), 0, None, false, Some(true));
        check(format!("rg {} needle hit.txt big.txt | <closed>", j), &run_closed_pipe(&rg, &dir, &[j, "needle", "hit.txt", "big.txt"], 10), 0, None, false, Some(true));
        // the consumer is gone before anything was written
        check(format!("rg {} needle hit.txt big.txt | <closed at once>", j), &run_closed_pipe(&rg, &dir, &[j, "needle", "hit.txt", "big.txt"], 0), 0, None, false, Some(true));
        check(format!("rg {} -l needle hit.txt big.txt | <closed at once>", j), &run_closed_pipe(&rg, &dir, &[j, "-l", "needle", "hit.txt", "big.txt"], 0), 0, None, false, Some(true));
        check(format!("rg {} --json needle big.txt | <closed>", j), &run_closed_pipe(&rg, &dir, &[j, "--json", "needle", "big.txt"], 10), 0, None, false, Some(true));
        check(format!("rg {} --pre ./pre.sh needle big.txt | <closed>", j), &run_closed_pipe(&rg, &dir, &[j, "--pre", "./pre.sh", "needle", "big.txt"], 10), 0, None, false, Some(true));
        check(format!("rg {} -L needle links (dangling symlink while following links)", j), &run(&rg, &dir, &[j, "-L", "needle", "links"]), 2, Some("needle one"), false, Some(false));
        check(format!("rg {} -L --files links (dangling symlink)", j), &run(&rg, &dir, &[j, "-L", "--files", "links"]), 2, Some("hit.txt"), false, Some(false));
        if have_gzip {
            check(format!("rg {} -z needle bigz.txt.gz | <closed>", j), &run_closed_pipe(&rg, &dir, &[j, "-z", "needle", "bigz.txt.gz"], 10), 0, None, false, Some(true));
        }
        // the command has written to its stderr AND the consumer goes away: still a quiet exit 0
        check(format!("rg {} --pre ./pre_noisy.sh needle big.txt | <closed>", j), &run_closed_pipe(&rg, &dir, &[j, "--pre", "./pre_noisy.sh", "needle", "big.txt"], 10), 0, None, false, Some(true));
        check(format!("rg {} --files tree | <closed after 1 byte>", j), &run_closed_pipe(&rg, &dir, &[j, "--files", "tree"], 1), 0, None, false, Some(true));
    }
    let _ = std::fs::remove_dir_all(&dir);
    if failures.is_empty() {
        println!("exit status table: all scenarios agree with the property");
        return;
    }
    for f in &failures { println!("FAILING CASE exit-status {}", f); }
    println!("VERIF_REPLAY_TABLE=1");
    std::process::exit(1);
}
