//! (in-crate module appended to a verbatim copy of crates/searcher/src)
//! Bounded twin of the searcher (C01/C02/C03/C14/C16): the REAL grep-searcher crate (path dependency on
//! /repo/crates/searcher; only memchr and bstr are replaced by plain-loop shims) driven through its public
//! API with a tiny matcher ("a line matches iff it contains the byte K") and a recording sink that may
//! refuse at a chosen event.  Everything recorded is compared with the grep model computed directly.
#![allow(dead_code)]
use grep_matcher::{Match, Matcher, NoCaptures, NoError};
use crate::{BinaryDetection, Searcher, SearcherBuilder, Sink, SinkContext, SinkContextKind, SinkFinish, SinkMatch};
use crate::searcher::glue_twin_access::{slice_by_line_run};

pub struct ByteMatcher(pub u8);
impl Matcher for ByteMatcher {
    type Captures = NoCaptures;
    type Error = NoError;
    fn find_at(&self, haystack: &[u8], at: usize) -> Result<Option<Match>, NoError> {
        let mut i = at;
        while i < haystack.len() {
            if haystack[i] == self.0 {
                return Ok(Some(Match::new(i, i + 1)));
            }
            i += 1;
        }
        Ok(None)
    }
    fn new_captures(&self) -> Result<NoCaptures, NoError> { Ok(NoCaptures::new()) }
    /// with FAST on, the matcher names `\n` as a byte that no match contains (true: K is never `\n`), which
    /// makes the searcher take its FAST line path (find_by_line_fast, match_by_line_fast[_invert]); off, the
    /// slow line-by-line path.  Every oracle runs under both.
    fn line_terminator(&self) -> Option<grep_matcher::LineTerminator> {
        if fast_flag() == 1 { Some(grep_matcher::LineTerminator::byte(b'\n')) } else { None }
    }
}
pub static FAST: std::sync::atomic::AtomicUsize = std::sync::atomic::AtomicUsize::new(0);
pub fn fast_flag() -> usize { FAST.load(std::sync::atomic::Ordering::SeqCst) }

pub const MAXEV: usize = 12;
#[derive(Clone, Copy, PartialEq, Eq, Debug)]
pub struct Ev { pub kind: u8, pub off: u64, pub len: usize, pub ln: u64 } // kind: 1 match, 2 before, 3 after, 4 other, 5 break, 6 finish

pub struct Rec<'a> {
    pub input: &'a [u8],
    pub evs: [Ev; MAXEV],
    pub n: usize,
    pub refuse_at: usize,
    pub after_stop: usize,  // events delivered after a refusal (must stay 0)
    pub stopped: bool,
    pub finished: usize,
    pub bad_bytes: bool,
}
impl<'a> Rec<'a> {
    pub fn new(input: &'a [u8], refuse_at: usize) -> Rec<'a> {
        Rec { input, evs: [Ev { kind: 0, off: 0, len: 0, ln: 0 }; MAXEV], n: 0, refuse_at, after_stop: 0, stopped: false, finished: 0, bad_bytes: false }
    }
    fn push(&mut self, e: Ev) -> bool {
        if self.stopped { self.after_stop += 1; }
        if self.n < MAXEV { self.evs[self.n] = e; }
        self.n += 1;
        if self.n - 1 == self.refuse_at { self.stopped = true; return false; }
        true
    }
    fn check_bytes(&mut self, off: u64, bytes: &[u8]) {
        let o = off as usize;
        if o + bytes.len() > self.input.len() || &self.input[o..o + bytes.len()] != bytes { self.bad_bytes = true; }
    }
}
impl<'a> Sink for Rec<'a> {
    type Error = std::io::Error;
    fn matched(&mut self, _s: &Searcher, m: &SinkMatch<'_>) -> Result<bool, std::io::Error> {
        self.check_bytes(m.absolute_byte_offset(), m.bytes());
        Ok(self.push(Ev { kind: 1, off: m.absolute_byte_offset(), len: m.bytes().len(), ln: m.line_number().unwrap_or(0) }))
    }
    fn context(&mut self, _s: &Searcher, c: &SinkContext<'_>) -> Result<bool, std::io::Error> {
        self.check_bytes(c.absolute_byte_offset(), c.bytes());
        let k = match c.kind() { SinkContextKind::Before => 2, SinkContextKind::After => 3, SinkContextKind::Other => 4 };
        Ok(self.push(Ev { kind: k, off: c.absolute_byte_offset(), len: c.bytes().len(), ln: c.line_number().unwrap_or(0) }))
    }
    fn context_break(&mut self, _s: &Searcher) -> Result<bool, std::io::Error> {
        Ok(self.push(Ev { kind: 5, off: 0, len: 0, ln: 0 }))
    }
    fn finish(&mut self, _s: &Searcher, f: &SinkFinish) -> Result<(), std::io::Error> {
        self.finished += 1;
        if self.n < MAXEV { self.evs[self.n] = Ev { kind: 6, off: f.byte_count(), len: 0, ln: 0 }; }
        Ok(())
    }
}

/// the grep model, checked against a finished (not refused) recording: order, uniqueness, true
/// coordinates, a line is a match iff it contains K (xor invert), full byte count
pub fn model_ok(input: &[u8], k: u8, invert: bool, rec: &Rec<'_>, complete: bool) -> bool {
    if rec.bad_bytes || rec.after_stop != 0 || rec.finished != 1 { return false; }
    let mut prev_end: u64 = 0;
    let mut i = 0;
    let mut nmatch = 0;
    while i < rec.n && i < MAXEV {
        let e = rec.evs[i];
        if e.kind >= 1 && e.kind <= 4 {
            if e.off < prev_end || e.len == 0 { return false; }
            // a whole line with its true 1-based number
            let o = e.off as usize;
            if o > 0 && input[o - 1] != b'\n' { return false; }
            let mut ln = 1u64; let mut j = 0;
            while j < o { if input[j] == b'\n' { ln += 1; } j += 1; }
            if e.ln != ln { return false; }
            let end = o + e.len;
            let mut has = false; let mut j = o;
            while j < end { if input[j] == k { has = true; } if input[j] == b'\n' && j + 1 != end { return false; } j += 1; }
            if !(input[end - 1] == b'\n' || end == input.len()) { return false; }
            if e.kind == 1 { if has == invert { return false; } nmatch += 1; } else if has != invert { return false; }
            prev_end = e.off + e.len as u64;
        }
        i += 1;
    }
    if complete {
        // every selected line was delivered, and the full length is reported
        let mut want = 0; let mut s = 0;
        while s < input.len() {
            let mut e = s; let mut has = false;
            while e < input.len() && input[e] != b'\n' { if input[e] == k { has = true; } e += 1; }
            if e < input.len() { e += 1; }
            if has != invert { want += 1; }
            s = e;
        }
        if want != nmatch { return false; }
        if rec.n < MAXEV && rec.evs[rec.n].off != input.len() as u64 { return false; }
    }
    true
}

/// The grep model as a reference implementation (C03): the exact event sequence for a search that runs to
/// completion -- matches are the selected lines, context lines are the unselected lines within `before`
/// lines before / `after` lines after a selected line, a separator exactly between non-adjacent groups
/// (only when context is enabled), true offsets and 1-based line numbers, then finish(len).
pub fn expected(input: &[u8], k: u8, invert: bool, after: usize, before: usize) -> Vec<Ev> {
    let mut lines: Vec<(usize, usize, bool)> = Vec::new();
    let mut s = 0;
    while s < input.len() {
        let mut e = s; let mut has = false;
        while e < input.len() && input[e] != b'\n' { if input[e] == k { has = true; } e += 1; }
        if e < input.len() { e += 1; }
        lines.push((s, e, has != invert));
        s = e;
    }
    let n = lines.len();
    let mut out = Vec::new();
    let mut last: Option<usize> = None;
    for i in 0..n {
        let sel = lines[i].2;
        let is_before = !sel && (1..=before).any(|d| i + d < n && lines[i + d].2 && (1..d).all(|q| !lines[i + q].2 || true));
        let is_after = !sel && (1..=after).any(|d| i >= d && lines[i - d].2);
        if !(sel || is_before || is_after) { continue; }
        if let Some(p) = last { if p + 1 != i && (after > 0 || before > 0) { out.push(Ev { kind: 5, off: 0, len: 0, ln: 0 }); } }
        last = Some(i);
        // an unselected line that is both after- and before-context is delivered as after-context
        let kind = if sel { 1 } else if is_after { 3 } else { 2 };
        out.push(Ev { kind, off: lines[i].0 as u64, len: lines[i].1 - lines[i].0, ln: i as u64 + 1 });
    }
    out.push(Ev { kind: 6, off: input.len() as u64, len: 0, ln: 0 });
    out
}

/// C03 exactness: a completed slice search delivers exactly the reference sequence
pub fn slice_matches_reference(input: &[u8], k: u8, invert: bool, after: usize, before: usize) -> bool {
    let mut searcher = SearcherBuilder::new().line_number(true).invert_match(invert)
        .after_context(after).before_context(before).build();
    let mut rec = Rec::new(input, MAXEV * 4);
    let r = searcher.search_slice(ByteMatcher(k), input, &mut rec);
    let exp = expected(input, k, invert, after, before);
    if exp.len() > MAXEV { return true; } // recording capacity exceeded: not compared
    if !(r.is_ok() && rec.n + 1 == exp.len() && rec.evs[..exp.len()] == exp[..]) { return false; }
    // the same through the forwarding impls of Sink (`&mut S` inside a `Box<dyn Sink>`): every callback,
    // separators included, must reach the sink
    let mut rec2 = Rec::new(input, MAXEV * 4);
    let r2 = {
        let boxed: Box<dyn Sink<Error = std::io::Error> + '_> = Box::new(&mut rec2);
        searcher.search_slice(ByteMatcher(k), input, boxed)
    };
    r2.is_ok() && rec2.n + 1 == exp.len() && rec2.evs[..exp.len()] == exp[..]
}

/// The grep model extended by passthru (every unselected line is delivered as `Other` context; only with
/// before = after = 0) and stop-on-nonmatch (the search ends with the first unselected line that follows a
/// selected one; that line is still delivered if it is after-context or a passthru line; nothing later is
/// visited, so later matches get neither delivery nor before-context; finish reports the end of that line).
pub fn expected_ext(input: &[u8], k: u8, invert: bool, after: usize, before: usize, passthru: bool, son: bool) -> (Vec<Ev>, bool) {
    let mut lines: Vec<(usize, usize, bool)> = Vec::new();
    let mut s = 0;
    while s < input.len() {
        let mut e = s; let mut has = false;
        while e < input.len() && input[e] != b'\n' { if input[e] == k { has = true; } e += 1; }
        if e < input.len() { e += 1; }
        lines.push((s, e, has != invert));
        s = e;
    }
    let n = lines.len();
    let mut limit = n; // number of lines visited
    let mut stopped = false;
    if son {
        let mut seen = false;
        for i in 0..n {
            if lines[i].2 { seen = true; } else if seen { limit = i + 1; stopped = true; break; }
        }
    }
    let mut out = Vec::new();
    let mut last: Option<usize> = None;
    for i in 0..limit {
        let sel = lines[i].2;
        let is_before = !sel && (1..=before).any(|d| i + d < limit && lines[i + d].2);
        let is_after = !sel && (1..=after).any(|d| i >= d && lines[i - d].2);
        if !(sel || is_before || is_after || passthru) { continue; }
        if let Some(p) = last { if p + 1 != i && (after > 0 || before > 0) { out.push(Ev { kind: 5, off: 0, len: 0, ln: 0 }); } }
        last = Some(i);
        let kind = if sel { 1 } else if is_after { 3 } else if is_before { 2 } else { 4 };
        out.push(Ev { kind, off: lines[i].0 as u64, len: lines[i].1 - lines[i].0, ln: i as u64 + 1 });
    }
    let end = if limit < n { lines[limit - 1].1 } else { input.len() };
    out.push(Ev { kind: 6, off: end as u64, len: 0, ln: 0 });
    (out, stopped)
}

/// C03/C02 with passthru and stop-on-nonmatch: slice and reader strategies deliver exactly the reference sequence
pub fn ext_matches_reference(input: &[u8], k: u8, invert: bool, after: usize, before: usize, passthru: bool, son: bool, chunk: usize) -> bool {
    let mk = || SearcherBuilder::new().line_number(true).invert_match(invert)
        .after_context(after).before_context(before).passthru(passthru).stop_on_nonmatch(son).build();
    let (exp, stopped_early) = expected_ext(input, k, invert, after, before, passthru, son);
    if exp.len() > MAXEV { return true; } // recording capacity exceeded: not compared
    let mut a = Rec::new(input, MAXEV * 4);
    let ra = mk().search_slice(ByteMatcher(k), input, &mut a);
    if !(ra.is_ok() && a.n + 1 == exp.len() && a.evs[..exp.len()] == exp[..]) { return false; }
    if chunk == 0 { return true; }
    let mut b = Rec::new(input, MAXEV * 4);
    let rb = mk().search_reader(ByteMatcher(k), Chunked { data: input, pos: 0, chunk }, &mut b);
    // Listed known finding (C02): when the reader strategy stops EARLY, finish() reports the stream offset of
    // the start of the current buffer instead of the bytes searched, so the count depends on the read
    // fragmentation.  The default run compares everything but that count; VERIF_TWIN_CLASS=known compares
    // only that count.
    let known_only = std::env::var("VERIF_TWIN_CLASS").map(|v| v == "known").unwrap_or(false);
    let m = exp.len() - 1;
    let ok = if known_only {
        !stopped_early || !(rb.is_ok() && b.n == m) || b.evs[m] == exp[m]
    } else if stopped_early {
        rb.is_ok() && b.n == m && b.evs[..m] == exp[..m] && b.evs[m].kind == 6
    } else {
        rb.is_ok() && b.n == m && b.evs[..exp.len()] == exp[..]
    };
    if !ok && std::env::var("VERIF_REPLAY_EXT").is_ok() {
        println!("reader delivered: {:?}", &b.evs[..core::cmp::min(b.n + 1, MAXEV)]);
        println!("slice  delivered: {:?}", &a.evs[..core::cmp::min(a.n + 1, MAXEV)]);
    }
    ok
}

/// a matcher that only answers the two questions the strategy choice asks
pub struct MetaMatcher { pub lt: Option<grep_matcher::LineTerminator>, pub nmb: Option<grep_matcher::ByteSet> }
impl Matcher for MetaMatcher {
    type Captures = NoCaptures;
    type Error = NoError;
    fn find_at(&self, _h: &[u8], _at: usize) -> Result<Option<Match>, NoError> { Ok(None) }
    fn new_captures(&self) -> Result<NoCaptures, NoError> { Ok(NoCaptures::new()) }
    fn line_terminator(&self) -> Option<grep_matcher::LineTerminator> { self.lt }
    fn non_matching_bytes(&self) -> Option<&grep_matcher::ByteSet> { self.nmb.as_ref() }
}

/// C02 (strategy choice), COMPLETE for its finite domain: the multi-line strategy is chosen iff multi-line
/// mode was requested AND the matcher does not promise that no match contains the searcher's line
/// terminator -- either by naming that same terminator, or by listing the terminator's byte (`\n` for CRLF:
/// a `\r` is neither necessary nor sufficient to end a line) among its non-matching bytes.
pub fn strategy_choice_ok() -> bool {
    use grep_matcher::{ByteSet, LineTerminator};
    let terms = [LineTerminator::byte(b'\n'), LineTerminator::crlf(), LineTerminator::byte(0)];
    for multi_line in [false, true] { for st in terms { for mlt in [None, Some(terms[0]), Some(terms[1]), Some(terms[2])] {
        for nm in 0..9u32 {
            // nm == 8: the matcher reports no set at all; otherwise a set holding a subset of {\n, \r, NUL}
            let nmb = if nm == 8 { None } else {
                let mut bs = ByteSet::empty();
                if nm & 1 != 0 { bs.add(b'\n'); }
                if nm & 2 != 0 { bs.add(b'\r'); }
                if nm & 4 != 0 { bs.add(0); }
                Some(bs)
            };
            let excluded_by_set = nmb.as_ref().map_or(false, |b| b.contains(st.as_byte()));
            let want = multi_line && mlt != Some(st) && !excluded_by_set;
            let searcher = SearcherBuilder::new().multi_line(multi_line).line_terminator(st).build();
            let got = searcher.multi_line_with_matcher(&MetaMatcher { lt: mlt, nmb });
            if got != want {
                println!("FAILING CASE strategy-choice multi_line={} searcher_terminator={:?} matcher_terminator={:?} non_matching_bytes(code {} of {{\\n=1,\\r=2,NUL=4}}, 8 = none): multi_line_with_matcher = {}, the property demands {}", multi_line, st, mlt, nm, got, want);
                println!("VERIF_REPLAY_STRATEGY=1");
                return false;
            }
        }
    }}}
    true
}

/// a reader that hands out at most `chunk` bytes per read
pub struct Chunked<'a> { pub data: &'a [u8], pub pos: usize, pub chunk: usize }
impl<'a> std::io::Read for Chunked<'a> {
    fn read(&mut self, buf: &mut [u8]) -> std::io::Result<usize> {
        let n = core::cmp::min(core::cmp::min(self.chunk, buf.len()), self.data.len() - self.pos);
        buf[..n].copy_from_slice(&self.data[self.pos..self.pos + n]);
        self.pos += n;
        Ok(n)
    }
}

/// a sink that only checks that no delivered line contains the NUL byte
pub struct NoNul { pub bad: bool, pub events: usize }
impl Sink for NoNul {
    type Error = std::io::Error;
    fn matched(&mut self, _s: &Searcher, m: &SinkMatch<'_>) -> Result<bool, std::io::Error> {
        self.events += 1;
        if m.bytes().contains(&0) { self.bad = true; }
        Ok(true)
    }
    fn context(&mut self, _s: &Searcher, c: &SinkContext<'_>) -> Result<bool, std::io::Error> {
        self.events += 1;
        if c.bytes().contains(&0) { self.bad = true; }
        Ok(true)
    }
}

/// C14 (quit mode): whatever the strategy, flags and position of the NUL byte -- also beyond the first
/// 64 KiB that the slice strategy sniffs -- no delivered match or context line contains it
pub fn quit_mode_never_delivers_nul(prefix_bytes: usize, tail: &[u8], invert: bool, after: usize, before: usize, stop_on_nonmatch: bool, reader: bool) -> bool {
    // a prefix of exactly `prefix_bytes` bytes of non-matching filler lines (the last one shorter if needed),
    // so that the tail can sit beyond, or straddle, the 64 KiB the slice strategy sniffs
    let mut input: Vec<u8> = Vec::with_capacity(prefix_bytes + tail.len());
    for _ in 0..prefix_bytes / 8 { input.extend_from_slice(b"filler.\n"); }
    if prefix_bytes % 8 > 0 {
        for _ in 0..prefix_bytes % 8 - 1 { input.push(b'y'); }
        input.push(b'\n');
    }
    input.extend_from_slice(tail);
    let mut searcher = SearcherBuilder::new().line_number(true).invert_match(invert)
        .after_context(after).before_context(before).stop_on_nonmatch(stop_on_nonmatch)
        .binary_detection(BinaryDetection::quit(0)).build();
    let mut sink = NoNul { bad: false, events: 0 };
    let r = if reader {
        searcher.search_reader(ByteMatcher(b'x'), Chunked { data: &input, pos: 0, chunk: 4096 }, &mut sink)
    } else {
        searcher.search_slice(ByteMatcher(b'x'), &input, &mut sink)
    };
    r.is_ok() && !sink.bad
}

/// C14 with passthru: every line is delivered (as a match or as `Other` context), also beyond the 64 KiB sniff
pub fn quit_mode_passthru_never_delivers_nul(prefix_bytes: usize, tail: &[u8], invert: bool, reader: bool) -> bool {
    let mut input: Vec<u8> = Vec::with_capacity(prefix_bytes + tail.len());
    for _ in 0..prefix_bytes / 8 { input.extend_from_slice(b"filler.\n"); }
    if prefix_bytes % 8 > 0 {
        for _ in 0..prefix_bytes % 8 - 1 { input.push(b'y'); }
        input.push(b'\n');
    }
    input.extend_from_slice(tail);
    let mut searcher = SearcherBuilder::new().line_number(true).invert_match(invert).passthru(true)
        .binary_detection(BinaryDetection::quit(0)).build();
    let mut sink = NoNul { bad: false, events: 0 };
    let r = if reader {
        searcher.search_reader(ByteMatcher(b'x'), Chunked { data: &input, pos: 0, chunk: 4096 }, &mut sink)
    } else {
        searcher.search_slice(ByteMatcher(b'x'), &input, &mut sink)
    };
    r.is_ok() && !sink.bad
}

/// C02: a line longer than the line buffer's initial capacity (the buffer has to grow), read in short pieces,
/// followed by a few short lines: the reader strategy delivers what the slice strategy delivers
pub fn long_line_reader_agrees(tail: &[u8], chunk: usize, invert: bool, after: usize) -> bool {
    let mut input = vec![b'y'; 70_000];
    input.push(b'\n');
    input.extend_from_slice(tail);
    let mk = || SearcherBuilder::new().line_number(true).invert_match(invert).after_context(after).build();
    let mut a = Rec::new(&input, MAXEV);
    let ra = mk().search_slice(ByteMatcher(b'x'), &input, &mut a);
    let mut b = Rec::new(&input, MAXEV);
    let rb = mk().search_reader(ByteMatcher(b'x'), Chunked { data: &input, pos: 0, chunk }, &mut b);
    ra.is_ok() && rb.is_ok() && !a.bad_bytes && !b.bad_bytes && a.n == b.n && a.finished == b.finished
        && a.evs[..core::cmp::min(a.n + 1, MAXEV)] == b.evs[..core::cmp::min(b.n + 1, MAXEV)]
}

/// C16 for the reader strategy: a sink that answers `false` at event r gets exactly the first r+1 deliveries
/// of the uninterrupted reader run, then finish once, and nothing afterwards
pub fn reader_refusal_prefix(input: &[u8], invert: bool, after: usize, before: usize, chunk: usize) -> bool {
    let mk = || SearcherBuilder::new().line_number(true).invert_match(invert).after_context(after).before_context(before).build();
    let mut full = Rec::new(input, MAXEV * 4);
    if mk().search_reader(ByteMatcher(b'x'), Chunked { data: input, pos: 0, chunk }, &mut full).is_err() { return false; }
    if full.n >= MAXEV { return true; }
    for r in 0..full.n {
        let mut p = Rec::new(input, r);
        if mk().search_reader(ByteMatcher(b'x'), Chunked { data: input, pos: 0, chunk }, &mut p).is_err() { return false; }
        if p.n != r + 1 || p.after_stop != 0 || p.finished != 1 || p.evs[..=r] != full.evs[..=r] { return false; }
    }
    true
}

/// state carried over: a Searcher that has already run a reader search on another input delivers, for this
/// input, what a fresh Searcher delivers (reader and slice)
pub fn reused_searcher_agrees(input: &[u8], invert: bool, ctx: usize) -> bool {
    let mk = || SearcherBuilder::new().line_number(true).invert_match(invert).after_context(ctx).before_context(ctx).build();
    let mut fresh = Rec::new(input, MAXEV * 4);
    if mk().search_slice(ByteMatcher(b'x'), input, &mut fresh).is_err() { return false; }
    let other: &[u8] = b"ax\nxa\na";
    let mut used = mk();
    let mut r0 = Rec::new(other, 1); // the first search is even stopped early by its sink
    if used.search_reader(ByteMatcher(b'x'), Chunked { data: other, pos: 0, chunk: 3 }, &mut r0).is_err() { return false; }
    let mut r1 = Rec::new(input, MAXEV * 4);
    if used.search_reader(ByteMatcher(b'x'), Chunked { data: input, pos: 0, chunk: 2 }, &mut r1).is_err() { return false; }
    let mut r2 = Rec::new(input, MAXEV * 4);
    if used.search_slice(ByteMatcher(b'x'), input, &mut r2).is_err() { return false; }
    let m = core::cmp::min(fresh.n + 1, MAXEV);
    !r1.bad_bytes && !r2.bad_bytes && r1.n == fresh.n && r2.n == fresh.n && r1.evs[..m] == fresh.evs[..m] && r2.evs[..m] == fresh.evs[..m]
}

/// a reader that fails at its `fail_at`-th read call (persistently), handing out `chunk` bytes per read before
pub struct Failing<'a> { pub data: &'a [u8], pub pos: usize, pub chunk: usize, pub calls: usize, pub fail_at: usize }
impl<'a> std::io::Read for Failing<'a> {
    fn read(&mut self, buf: &mut [u8]) -> std::io::Result<usize> {
        let c = self.calls;
        self.calls += 1;
        if c >= self.fail_at {
            return Err(std::io::Error::new(std::io::ErrorKind::Other, "injected read failure"));
        }
        let n = core::cmp::min(core::cmp::min(self.chunk, buf.len()), self.data.len() - self.pos);
        buf[..n].copy_from_slice(&self.data[self.pos..self.pos + n]);
        self.pos += n;
        Ok(n)
    }
}

/// C16: if the reader fails at read j, the error is returned, completion is NOT signalled, and what was
/// delivered before is a prefix of the uninterrupted run's results
pub fn read_error_surfaces(input: &[u8], k: u8, invert: bool, after: usize, before: usize, chunk: usize, fail_at: usize) -> bool {
    let mk = || SearcherBuilder::new().line_number(true).invert_match(invert)
        .after_context(after).before_context(before).build();
    let mut full = Rec::new(input, MAXEV);
    if mk().search_slice(ByteMatcher(k), input, &mut full).is_err() { return false; }
    let mut b = Rec::new(input, MAXEV);
    let mut rd = Failing { data: input, pos: 0, chunk, calls: 0, fail_at };
    let r = mk().search_reader(ByteMatcher(k), &mut rd, &mut b);
    let m = core::cmp::min(b.n, MAXEV);
    if rd.calls > fail_at {
        // the failing read was reached: the error is returned, completion is not signalled, prefix delivered
        r.is_err() && b.finished == 0 && b.n <= full.n && b.evs[..m] == full.evs[..m]
    } else {
        // EOF was seen before the failing read: an ordinary complete run
        r.is_ok() && b.finished == 1 && b.n == full.n && b.evs[..core::cmp::min(b.n + 1, MAXEV)] == full.evs[..core::cmp::min(full.n + 1, MAXEV)]
    }
}

/// C02: the incremental reader strategy (any read fragmentation) delivers exactly what the slice strategy delivers
pub fn reader_agrees(input: &[u8], k: u8, invert: bool, after: usize, before: usize, chunk: usize) -> bool {
    let mk = || SearcherBuilder::new().line_number(true).invert_match(invert)
        .after_context(after).before_context(before).build();
    let mut a = Rec::new(input, MAXEV);
    let ra = mk().search_slice(ByteMatcher(k), input, &mut a);
    let mut b = Rec::new(input, MAXEV);
    let rb = mk().search_reader(ByteMatcher(k), Chunked { data: input, pos: 0, chunk }, &mut b);
    ra.is_ok() && rb.is_ok() && a.n == b.n && a.finished == b.finished
        && a.evs[..core::cmp::min(a.n + 1, MAXEV)] == b.evs[..core::cmp::min(b.n + 1, MAXEV)]
}

pub fn run_slice(input: &[u8], k: u8, invert: bool, after: usize, before: usize, refuse_at: usize) -> bool {
    let mut searcher = SearcherBuilder::new().line_number(true).invert_match(invert)
        .after_context(after).before_context(before).build();
    let mut rec = Rec::new(input, refuse_at);
    // straight into the line-oriented slice strategy (SliceByLine::new(..).run()), bypassing the
    // transcoding decision of Searcher::search_slice (encoding_rs exhausts CBMC's memory)
    let r = slice_by_line_run(&searcher, ByteMatcher(k), input, &mut rec);
    r.is_ok() && model_ok(input, k, invert, &rec, refuse_at >= MAXEV)
}

#[cfg(kani)]
mod proofs {
    use super::*;
    /// smaller variants: 3 input bytes, fixed flags
    #[kani::proof]
    #[kani::unwind(6)]
    fn slice_search_len3_noinvert() {
        let b: [u8; 3] = kani::any();
        let n: usize = kani::any();
        kani::assume(n <= 3);
        assert!(run_slice(&b[..n], b'x', false, 0, 0, MAXEV));
    }
    #[kani::proof]
    #[kani::unwind(6)]
    fn slice_search_len3_before_context_refusal() {
        let b: [u8; 3] = kani::any();
        let n: usize = kani::any();
        kani::assume(n <= 3);
        let r: usize = kani::any();
        kani::assume(r <= 2);
        assert!(run_slice(&b[..n], b'x', false, 0, 1, r));
    }
    #[kani::proof]
    #[kani::unwind(7)]
    fn slice_search_obeys_grep_model_len4() {
        let b: [u8; 4] = kani::any();
        let n: usize = kani::any();
        kani::assume(n <= 4);
        let invert: bool = kani::any();
        let refuse_at: usize = kani::any();
        kani::assume(refuse_at <= 3 || refuse_at == MAXEV);
        assert!(run_slice(&b[..n], b'x', invert, 0, 0, refuse_at));
    }
}

/// native re-execution of a recorded counterexample (bin twin_replay, feature "twin")
pub fn replay_main() -> i32 {
    FAST.store(std::env::var("VERIF_REPLAY_FAST").ok().and_then(|v| v.parse().ok()).unwrap_or(0), std::sync::atomic::Ordering::SeqCst);
    let hex = std::env::var("VERIF_REPLAY_HEX").unwrap_or_default();
    let bytes: Vec<u8> = (0..hex.len() / 2).map(|i| u8::from_str_radix(&hex[2 * i..2 * i + 2], 16).unwrap()).collect();
    let inv = std::env::var("VERIF_REPLAY_INVERT").map(|v| v != "0").unwrap_or(false);
    let r: usize = std::env::var("VERIF_REPLAY_REFUSE").ok().and_then(|v| v.parse().ok()).unwrap_or(MAXEV);
    let ctx: usize = std::env::var("VERIF_REPLAY_CTX").ok().and_then(|v| v.parse().ok()).unwrap_or(0);
    let after: usize = std::env::var("VERIF_REPLAY_AFTER").ok().and_then(|v| v.parse().ok()).unwrap_or(ctx);
    let before: usize = std::env::var("VERIF_REPLAY_BEFORE").ok().and_then(|v| v.parse().ok()).unwrap_or(ctx);
    {
        let g = |k: &str| std::env::var(k).ok().and_then(|v| v.parse::<usize>().ok()).unwrap_or(0);
        if std::env::var("VERIF_REPLAY_RREFUSAL").is_ok() {
            let ok = reader_refusal_prefix(&bytes, inv, after, before, g("VERIF_REPLAY_RCHUNK"));
            println!("replay: reader run of {:?} with a sink refusing at each event in turn: {}", bytes, if ok { "prefix property holds" } else { "VIOLATED" });
            return if ok { 0 } else { 1 };
        }
        if std::env::var("VERIF_REPLAY_REUSE").is_ok() {
            let ok = reused_searcher_agrees(&bytes, inv, g("VERIF_REPLAY_CTX"));
            println!("replay: reused searcher on {:?}: {}", bytes, if ok { "agrees with a fresh one" } else { "DIFFERS from a fresh one" });
            return if ok { 0 } else { 1 };
        }
        if std::env::var("VERIF_REPLAY_LONGLINE").is_ok() {
            let ok = long_line_reader_agrees(&bytes, g("VERIF_REPLAY_LCHUNK"), inv, after);
            println!("replay: 70000-byte line then {:?}, reads of {} bytes: {}", bytes, g("VERIF_REPLAY_LCHUNK"), if ok { "reader agrees with slice" } else { "reader DIFFERS from slice" });
            return if ok { 0 } else { 1 };
        }
        if std::env::var("VERIF_REPLAY_BINPASS").is_ok() {
            let ok = quit_mode_passthru_never_delivers_nul(g("VERIF_REPLAY_PREFIX"), &bytes, inv, g("VERIF_REPLAY_READER") != 0);
            println!("replay: quit mode with passthru: {}", if ok { "no NUL delivered" } else { "A NUL BYTE WAS DELIVERED" });
            return if ok { 0 } else { 1 };
        }
    }
    if std::env::var("VERIF_REPLAY_STRATEGY").is_ok() {
        return if strategy_choice_ok() { println!("replay: strategy choice agrees in all 216 cases"); 0 } else { 1 };
    }
    if std::env::var("VERIF_REPLAY_EXT").is_ok() {
        let g = |k: &str| std::env::var(k).ok().and_then(|v| v.parse::<usize>().ok()).unwrap_or(0);
        let (pt, son, chunk) = (g("VERIF_REPLAY_PASSTHRU") != 0, g("VERIF_REPLAY_SON") != 0, g("VERIF_REPLAY_EXTCHUNK"));
        let ok = ext_matches_reference(&bytes, b'x', inv, after, before, pt, son, chunk);
        println!("replay: {:?} (invert={}, after={}, before={}, passthru={}, stop_on_nonmatch={}, reader chunk {}): {}", bytes, inv, after, before, pt, son, chunk,
            if ok { "delivered events equal the grep model" } else { "delivered events DIFFER from the grep model" });
        return if ok { 0 } else { 1 };
    }
    if std::env::var("VERIF_REPLAY_BINARY").is_ok() {
        let g = |k: &str| std::env::var(k).ok().and_then(|v| v.parse::<usize>().ok()).unwrap_or(0);
        let ok = quit_mode_never_delivers_nul(g("VERIF_REPLAY_PREFIX"), &bytes, inv, after, before, g("VERIF_REPLAY_SON") != 0, g("VERIF_REPLAY_READER") != 0);
        println!("replay: quit-mode search (prefix of {} filler bytes, tail {:?}): {}", g("VERIF_REPLAY_PREFIX"), bytes, if ok { "no NUL delivered" } else { "A NUL BYTE WAS DELIVERED" });
        return if ok { 0 } else { 1 };
    }
    if std::env::var("VERIF_REPLAY_REFERENCE").is_ok() {
        let ok = slice_matches_reference(&bytes, b'x', inv, after, before);
        println!("replay: slice search of {:?} (invert={}, after={}, before={}) vs the grep reference model: {}", bytes, inv, after, before, if ok { "equal" } else { "DIFFERENT" });
        return if ok { 0 } else { 1 };
    }
    if let (Some(chunk), Some(fail_at)) = (std::env::var("VERIF_REPLAY_CHUNK").ok().and_then(|v| v.parse::<usize>().ok()),
                                            std::env::var("VERIF_REPLAY_FAIL_AT").ok().and_then(|v| v.parse::<usize>().ok())) {
        let ok = read_error_surfaces(&bytes, b'x', inv, after, before, chunk, fail_at);
        println!("replay: reader failing at read {} (chunk {}) on {:?}: {}", fail_at, chunk, bytes, if ok { "error surfaces, nothing delivered afterwards" } else { "VIOLATION (error swallowed, completion signalled, or results not a prefix)" });
        return if ok { 0 } else { 1 };
    }
    if let Some(chunk) = std::env::var("VERIF_REPLAY_CHUNK").ok().and_then(|v| v.parse::<usize>().ok()) {
        let ok = reader_agrees(&bytes, b'x', inv, after, before, chunk);
        println!("replay: reader (chunk {}) vs slice on {:?} (invert={}, after={}, before={}): {}", chunk, bytes, inv, after, before, if ok { "agree" } else { "DISAGREE" });
        return if ok { 0 } else { 1 };
    }
    if run_slice(&bytes, b'x', inv, after, before, r) {
        println!("replay: the grep model holds for {:?} (invert={}, context={}, refusal at event {})", bytes, inv, ctx, r);
        0
    } else {
        println!("replay: searching {:?} (invert={}, context={}, refusal at event {}) VIOLATES the grep model", bytes, inv, ctx, r);
        1
    }
}

/// native bounded enumeration: every input over {x, \n, a} up to 5 bytes, invert on/off, before/after
/// context 0..1 each, sink refusal at event 0..3 or never, reader chunk sizes 1..2: the grep model holds and
/// the reader strategy agrees with the slice strategy.  Prints the first failing case.
pub fn exhaustive_small() -> bool {
    for f in [0usize, 1] {
        FAST.store(f, std::sync::atomic::Ordering::SeqCst);
        if !exhaustive_small_mode() {
            println!("(matcher line_terminator reported: {})", f == 1);
            return false;
        }
    }
    true
}
fn exhaustive_small_mode() -> bool {
    if !strategy_choice_ok() { return false; }
    let alpha = [b'x', b'\n', b'a'];
    let mut t = [0u8; 5];
    for n in 0..=5usize {
        let total = 3usize.pow(n as u32);
        for code in 0..total {
            let mut c = code;
            for i in 0..n { t[i] = alpha[c % 3]; c /= 3; }
            for inv in [false, true] { for after in 0..2usize { for before in 0..2usize {
                for r in [0usize, 1, 2, 3, MAXEV] {
                    if !run_slice(&t[..n], b'x', inv, after, before, r) {
                        println!("FAILING CASE model input={:?} invert={} after={} before={} refuse_at={}", &t[..n], inv, after, before, r);
                        println!("VERIF_REPLAY_FAST={} VERIF_REPLAY_HEX={} VERIF_REPLAY_INVERT={} VERIF_REPLAY_AFTER={} VERIF_REPLAY_BEFORE={} VERIF_REPLAY_REFUSE={}",
                            fast_flag(), t[..n].iter().map(|b| format!("{:02x}", b)).collect::<String>(), inv as u8, after, before, r);
                        return false;
                    }
                }
                for (passthru, son) in [(false, true), (true, false), (true, true)] {
                    if passthru && (after > 0 || before > 0) { continue; }
                    for chunk in [0usize, 1, 2] {
                        if !ext_matches_reference(&t[..n], b'x', inv, after, before, passthru, son, chunk) {
                            println!("FAILING CASE reference-model-ext input={:?} invert={} after={} before={} passthru={} stop_on_nonmatch={} reader_chunk={} (0 = slice only): delivered events differ from the grep model {:?}",
                                &t[..n], inv, after, before, passthru, son, chunk, expected_ext(&t[..n], b'x', inv, after, before, passthru, son).0);
                            println!("VERIF_REPLAY_FAST={} VERIF_REPLAY_HEX={} VERIF_REPLAY_INVERT={} VERIF_REPLAY_AFTER={} VERIF_REPLAY_BEFORE={} VERIF_REPLAY_PASSTHRU={} VERIF_REPLAY_SON={} VERIF_REPLAY_EXTCHUNK={} VERIF_REPLAY_EXT=1",
                                fast_flag(), t[..n].iter().map(|b| format!("{:02x}", b)).collect::<String>(), inv as u8, after, before, passthru as u8, son as u8, chunk);
                            return false;
                        }
                    }
                }
                if !slice_matches_reference(&t[..n], b'x', inv, after, before) {
                    println!("FAILING CASE reference-model input={:?} invert={} after={} before={}", &t[..n], inv, after, before);
                    println!("VERIF_REPLAY_FAST={} VERIF_REPLAY_HEX={} VERIF_REPLAY_INVERT={} VERIF_REPLAY_AFTER={} VERIF_REPLAY_BEFORE={} VERIF_REPLAY_REFERENCE=1",
                        fast_flag(), t[..n].iter().map(|b| format!("{:02x}", b)).collect::<String>(), inv as u8, after, before);
                    return false;
                }
                for chunk in 1..3usize {
                    for fail_at in 0..4usize {
                        if !read_error_surfaces(&t[..n], b'x', inv, after, before, chunk, fail_at) {
                            println!("FAILING CASE read-error input={:?} invert={} after={} before={} chunk={} fail_at={}", &t[..n], inv, after, before, chunk, fail_at);
                            println!("VERIF_REPLAY_FAST={} VERIF_REPLAY_HEX={} VERIF_REPLAY_INVERT={} VERIF_REPLAY_AFTER={} VERIF_REPLAY_BEFORE={} VERIF_REPLAY_CHUNK={} VERIF_REPLAY_FAIL_AT={}",
                                fast_flag(), t[..n].iter().map(|b| format!("{:02x}", b)).collect::<String>(), inv as u8, after, before, chunk, fail_at);
                            return false;
                        }
                    }
                    if !reader_refusal_prefix(&t[..n], inv, after, before, chunk) {
                        println!("FAILING CASE reader-refusal input={:?} invert={} after={} before={} chunk={}: a sink refusing at some event of the reader run is handed more (or something else) than the first deliveries, or finish is not signalled exactly once", &t[..n], inv, after, before, chunk);
                        println!("VERIF_REPLAY_FAST={} VERIF_REPLAY_HEX={} VERIF_REPLAY_INVERT={} VERIF_REPLAY_AFTER={} VERIF_REPLAY_BEFORE={} VERIF_REPLAY_RCHUNK={} VERIF_REPLAY_RREFUSAL=1",
                            fast_flag(), t[..n].iter().map(|b| format!("{:02x}", b)).collect::<String>(), inv as u8, after, before, chunk);
                        return false;
                    }
                    if !reader_agrees(&t[..n], b'x', inv, after, before, chunk) {
                        println!("FAILING CASE reader-vs-slice input={:?} invert={} after={} before={} chunk={}", &t[..n], inv, after, before, chunk);
                        println!("VERIF_REPLAY_FAST={} VERIF_REPLAY_HEX={} VERIF_REPLAY_INVERT={} VERIF_REPLAY_AFTER={} VERIF_REPLAY_BEFORE={} VERIF_REPLAY_CHUNK={}",
                            fast_flag(), t[..n].iter().map(|b| format!("{:02x}", b)).collect::<String>(), inv as u8, after, before, chunk);
                        return false;
                    }
                }
            }}}
        }
    }
    // state carried over in a reused Searcher; a line longer than the initial buffer capacity
    {
        let mut t = [0u8; 4];
        for n in 0..=4usize {
            for code in 0..3usize.pow(n as u32) {
                let mut c = code;
                for i in 0..n { t[i] = alpha[c % 3]; c /= 3; }
                for inv in [false, true] { for ctx in 0..2usize {
                    if !reused_searcher_agrees(&t[..n], inv, ctx) {
                        println!("FAILING CASE reused-searcher input={:?} invert={} context={}: a Searcher that searched another input before delivers something else than a fresh one", &t[..n], inv, ctx);
                        println!("VERIF_REPLAY_FAST={} VERIF_REPLAY_HEX={} VERIF_REPLAY_INVERT={} VERIF_REPLAY_CTX={} VERIF_REPLAY_REUSE=1", fast_flag(), t[..n].iter().map(|b| format!("{:02x}", b)).collect::<String>(), inv as u8, ctx);
                        return false;
                    }
                }}
                if n <= 3 {
                    for chunk in [4096usize, 30000] { for inv in [false, true] { for after in 0..2usize {
                        if !long_line_reader_agrees(&t[..n], chunk, inv, after) {
                            println!("FAILING CASE long-line tail={:?} chunk={} invert={} after={}: after a 70000-byte line the reader strategy delivers something else than the slice strategy", &t[..n], chunk, inv, after);
                            println!("VERIF_REPLAY_FAST={} VERIF_REPLAY_HEX={} VERIF_REPLAY_INVERT={} VERIF_REPLAY_AFTER={} VERIF_REPLAY_LCHUNK={} VERIF_REPLAY_LONGLINE=1", fast_flag(), t[..n].iter().map(|b| format!("{:02x}", b)).collect::<String>(), inv as u8, after, chunk);
                            return false;
                        }
                    }}}
                }
            }
        }
    }
    // C14: inputs over {x, \n, a, NUL} up to 4 bytes, directly, behind a 72 KiB prefix of filler lines, and
    // straddling the 64 KiB boundary (prefixes of 65533..65535 bytes)
    let alpha4 = [b'x', b'\n', b'a', 0u8];
    let mut u = [0u8; 4];
    for n in 0..=4usize {
        let total = 4usize.pow(n as u32);
        for code in 0..total {
            let mut c = code;
            for i in 0..n { u[i] = alpha4[c % 4]; c /= 4; }
            if !u[..n].contains(&0) { continue; }
            for prefix in [0usize, 73728, 65533, 65534, 65535] { for inv in [false, true] { for reader in [false, true] {
                if !quit_mode_passthru_never_delivers_nul(prefix, &u[..n], inv, reader) {
                    println!("FAILING CASE binary-quit-passthru prefix_bytes={} tail={:?} invert={} reader={}: a NUL byte was delivered", prefix, &u[..n], inv, reader);
                    println!("VERIF_REPLAY_FAST={} VERIF_REPLAY_HEX={} VERIF_REPLAY_INVERT={} VERIF_REPLAY_PREFIX={} VERIF_REPLAY_READER={} VERIF_REPLAY_BINPASS=1", fast_flag(), u[..n].iter().map(|b| format!("{:02x}", b)).collect::<String>(), inv as u8, prefix, reader as u8);
                    return false;
                }
            }}}
            for prefix in [0usize, 73728, 65533, 65534, 65535] { for inv in [false, true] { for after in 0..2usize { for before in 0..2usize {
                for son in [false, true] { for reader in [false, true] {
                    if !quit_mode_never_delivers_nul(prefix, &u[..n], inv, after, before, son, reader) {
                        println!("FAILING CASE binary-quit prefix_bytes={} tail={:?} invert={} after={} before={} stop_on_nonmatch={} reader={}", prefix, &u[..n], inv, after, before, son, reader);
                        println!("VERIF_REPLAY_FAST={} VERIF_REPLAY_HEX={} VERIF_REPLAY_INVERT={} VERIF_REPLAY_AFTER={} VERIF_REPLAY_BEFORE={} VERIF_REPLAY_PREFIX={} VERIF_REPLAY_SON={} VERIF_REPLAY_READER={} VERIF_REPLAY_BINARY=1",
                            fast_flag(), u[..n].iter().map(|b| format!("{:02x}", b)).collect::<String>(), inv as u8, after, before, prefix, son as u8, reader as u8);
                        return false;
                    }
                }}
            }}}}
        }
    }
    true
}
