#!/bin/bash
# benign_eval.sh: apply each behaviour-preserving patch of benign/ in a scratch worktree and run the quick checks of
# the properties that cover the touched file; a VIOLATION (exit 1) here is a false alarm.
WT=/tmp/benigneval
git -C /repo worktree remove --force $WT 2>/dev/null; git -C /repo worktree add -q $WT HEAD
for p in /verif/benign/*.patch; do
  n=$(basename $p .patch)
  (cd $WT && git checkout -q -- . && git apply $p) || { echo "$n: patch does not apply"; continue; }
  (cd $WT && cargo check --offline -q -p grep-searcher -p grep-cli -p ripgrep 2>&1 | grep -E "^error" | head -2)
  case $n in a_*|b_*|d_*) props="C03 C13";; c_*) props="C02";; e_*|g_*) props="C18";; f_*) props="C15";; h_*) props="C09";; esac
  for id in $props; do
    out=$(VERIF_REPO=$WT VERIF_EVIDENCE_DIR=/tmp/benign_ev python3 /verif/tools/check.py $id --tier quick 2>&1)
    rc=$?
    echo "$n $id rc=$rc $(echo "$out" | grep -E "obligation failed|UNDECIDED" | head -2 | cut -c1-200)"
  done
done
git -C /repo worktree remove --force $WT; rm -rf /tmp/benign_ev
