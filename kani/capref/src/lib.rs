//! C19: the real crates/matcher/src/interpolate.rs (included textually, nothing restated) with
//! harnesses placed inside the same module so that the private functions are reachable.
#![allow(dead_code, unused_imports)]
mod interpolate {
    include!(concat!(env!("VERIF_REPO"), "/crates/matcher/src/interpolate.rs"));

    /// Executable form of the regex library's reference grammar (regex-automata
    /// util::interpolate::find_cap_ref / find_cap_ref_braced), written from its documentation:
    /// `$name` = longest run of [0-9A-Za-z_]+ ; `${...}` = ANY bytes up to the first `}` that are
    /// valid UTF-8; an all-digit name that fits the integer type is a number.
    #[cfg(any(kani, test))]
    pub(crate) fn spec_cap_ref(rep: &[u8]) -> Option<(bool, usize, usize, usize)> {
        // returns (is_number, name_start, name_end, end)
        if rep.len() <= 1 || rep[0] != b'$' {
            return None;
        }
        if rep[1] == b'{' {
            let start = 2;
            let mut i = start;
            while i < rep.len() && rep[i] != b'}' {
                i += 1;
            }
            if i >= rep.len() {
                return None;
            }
            if core::str::from_utf8(&rep[start..i]).is_err() {
                return None;
            }
            let num = i > start && rep[start..i].iter().all(|b| b.is_ascii_digit());
            return Some((num, start, i, i + 1));
        }
        let mut e = 1;
        while e < rep.len() && (rep[e].is_ascii_alphanumeric() || rep[e] == b'_') {
            e += 1;
        }
        if e == 1 {
            return None;
        }
        let num = rep[1..e].iter().all(|b| b.is_ascii_digit());
        Some((num, 1, e, e))
    }

    /// Executable form of the library's expansion (regex-automata util::interpolate::bytes), from its
    /// documentation: text up to the next `$` is copied; `$$` is a literal `$`; a `$` that does not start
    /// a reference is copied; a reference appends the group (here: a marker byte 0xF0|index) or, for an
    /// unknown name, nothing.
    #[cfg(any(kani, test))]
    pub(crate) fn spec_expand(mut t: &[u8], out: &mut Vec<u8>) {
        while !t.is_empty() {
            if t[0] != b'$' {
                out.push(t[0]);
                t = &t[1..];
                continue;
            }
            if t.len() >= 2 && t[1] == b'$' {
                out.push(b'$');
                t = &t[2..];
                continue;
            }
            match spec_cap_ref(t) {
                None => {
                    out.push(b'$');
                    t = &t[1..];
                }
                Some((num, s, e, end)) => {
                    if num {
                        let mut v: usize = 0;
                        let mut k = s;
                        while k < e {
                            v = v.wrapping_mul(10).wrapping_add((t[k] - b'0') as usize);
                            k += 1;
                        }
                        out.push(0xF0 | (v & 7) as u8);
                    } else if &t[s..e] == b"n" {
                        out.push(0xF1);
                    }
                    t = &t[end..];
                }
            }
        }
    }

    #[cfg(any(kani, test))]
    pub(crate) fn expand_agrees(t: &[u8]) -> bool {
        let mut a = Vec::new();
        interpolate(t, |i, d: &mut Vec<u8>| d.push(0xF0 | (i & 7) as u8), |name| if name == "n" { Some(1) } else { None }, &mut a);
        let mut b = Vec::new();
        spec_expand(t, &mut b);
        a == b
    }

    /// the inputs of the listed known finding: a closed braced reference `${name}` whose name is empty or
    /// contains a byte outside [0-9A-Za-z_] (the library takes any bytes, ripgrep's port does not)
    #[cfg(any(kani, test))]
    pub(crate) fn known_braced_class(rep: &[u8]) -> bool {
        if rep.len() < 3 || rep[0] != b'$' || rep[1] != b'{' {
            return false;
        }
        let mut i = 2;
        while i < rep.len() && rep[i] != b'}' {
            i += 1;
        }
        if i >= rep.len() {
            return false;
        }
        let mut all_word = i > 2;
        let mut k = 2;
        while k < i {
            if !(rep[k].is_ascii_alphanumeric() || rep[k] == b'_') {
                all_word = false;
            }
            k += 1;
        }
        !all_word
    }

    #[cfg(any(kani, test))]
    pub(crate) fn agree(rep: &[u8]) -> bool {
        match (find_cap_ref(rep), spec_cap_ref(rep)) {
            (None, None) => true,
            (Some(c), Some((num, s, e, end))) => {
                c.end == end
                    && match c.cap {
                        Ref::Number(_) => num,
                        Ref::Named(n) => !num && n.as_bytes() == &rep[s..e],
                    }
            }
            _ => false,
        }
    }

    #[cfg(kani)]
    mod proofs {
        use super::*;

        /// complete: every byte value
        #[kani::proof]
        fn is_valid_cap_letter_complete() {
            let b: u8 = kani::any();
            let want = (b >= b'0' && b <= b'9') || (b >= b'a' && b <= b'z') || (b >= b'A' && b <= b'Z') || b == b'_';
            assert!(is_valid_cap_letter(&b) == want);
        }

        /// bounded: the whole expansion loop on every template of up to 3 bytes
        #[kani::proof]
        #[kani::unwind(6)]
        fn interpolate_matches_library_expansion_len3() {
            let t: [u8; 3] = kani::any();
            let n: usize = kani::any();
            kani::assume(n <= 3);
            // braced references are the subject of the find_cap_ref harnesses (one listed known finding)
            kani::assume(t[0] != b'{' && t[1] != b'{' && t[2] != b'{');
            assert!(expand_agrees(&t[..n]));
        }

        /// bounded: every template of up to 4 bytes OUTSIDE the class of the listed known finding
        #[kani::proof]
        #[kani::unwind(7)]
        fn find_cap_ref_matches_library_grammar_len4() {
            let t: [u8; 4] = kani::any();
            let n: usize = kani::any();
            kani::assume(n <= 4);
            kani::assume(!known_braced_class(&t[..n]));
            assert!(agree(&t[..n]));
        }

        /// bounded: every template of up to 6 bytes OUTSIDE the class of the listed known finding
        #[kani::proof]
        #[kani::unwind(9)]
        fn find_cap_ref_matches_library_grammar_len6() {
            let t: [u8; 6] = kani::any();
            let n: usize = kani::any();
            kani::assume(n <= 6);
            kani::assume(!known_braced_class(&t[..n]));
            assert!(agree(&t[..n]));
        }

        /// the class of the listed known finding only (`${name}` whose name is empty or has a byte outside
        /// [0-9A-Za-z_]): FAILS on the current tree, reported as KNOWN-FINDING
        #[kani::proof]
        #[kani::unwind(7)]
        fn find_cap_ref_braced_name_any_bytes_len4() {
            let t: [u8; 4] = kani::any();
            let n: usize = kani::any();
            kani::assume(n <= 4);
            kani::assume(known_braced_class(&t[..n]));
            assert!(agree(&t[..n]));
        }
    }

    #[cfg(test)]
    mod twin_tests {
        use super::*;
        #[test]
        fn smoke() {
            assert!(agree(b"$foo"));
            assert!(agree(b"${42}a"));
            assert!(agree(b"${42"));
            assert!(expand_agrees(b"a$1b$$"));
            assert!(expand_agrees(b"$n$x$"));
        }
        /// native bounded enumeration (not Kani): the whole expansion loop of `interpolate` against the
        /// library's documented expansion, every template over {$, }, 1, n, a, _, 0xFF, ' '} up to 5 bytes
        /// (braced forms `${..}` are the subject of the find_cap_ref harnesses and one known finding)
        #[test]
        #[ignore]
        fn exhaustive_native() {
            if let Ok(h) = std::env::var("VERIF_REPLAY_HEX") {
                let b: Vec<u8> = (0..h.len() / 2).map(|i| u8::from_str_radix(&h[2 * i..2 * i + 2], 16).unwrap()).collect();
                println!("FAILING CASE? interpolate template={:?}", String::from_utf8_lossy(&b));
                assert!(expand_agrees(&b), "interpolate disagrees with the library expansion");
                return;
            }
            let alpha: [u8; 8] = [b'$', b'}', b'1', b'n', b'a', b'_', 0xFF, b' '];
            let mut t = [0u8; 5];
            for n in 0..=5usize {
                let total = 8usize.pow(n as u32);
                for code in 0..total {
                    let mut c = code;
                    for i in 0..n { t[i] = alpha[c % 8]; c /= 8; }
                    if !expand_agrees(&t[..n]) {
                        println!("FAILING CASE interpolate template={:?}", String::from_utf8_lossy(&t[..n]));
                        println!("VERIF_REPLAY_HEX={}", t[..n].iter().map(|b| format!("{:02x}", b)).collect::<String>());
                        panic!("interpolate disagrees with the library expansion");
                    }
                }
            }
        }
        #[test]
        fn replay() {
            if let Ok(hex) = std::env::var("VERIF_REPLAY_HEX") {
                let bytes: Vec<u8> = (0..hex.len() / 2).map(|i| u8::from_str_radix(&hex[2 * i..2 * i + 2], 16).unwrap()).collect();
                assert!(expand_agrees(&bytes) || !agree(&bytes), "interpolate disagrees with the library expansion on {:?}", String::from_utf8_lossy(&bytes));
                assert!(agree(&bytes), "find_cap_ref disagrees with the library grammar on {:?}", String::from_utf8_lossy(&bytes));
            }
        }
    }
}
