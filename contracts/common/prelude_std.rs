use vstd::std_specs::cmp::*;
use vstd::slice::SliceIndexSpec;
use vstd::std_specs::core::IndexSpec;
// ===== TRUSTED: assumed specifications of std (T-std) =====
pub assume_specification<T>[ std::slice::from_ref ](x: &T) -> (r: &[T])
    ensures r@ == seq![*x],
;

pub assume_specification<T, U, F>[ std::option::Option::<T>::map_or ](o: Option<T>, d: U, f: F) -> (r: U)
    where F: FnOnce(T,) -> U + std::marker::Destruct, U: std::marker::Destruct,
    requires o is Some ==> f.requires((o->Some_0,)),
    ensures
        o is None ==> r == d,
        o is Some ==> f.ensures((o->Some_0,), r),
;

// std::cmp::max / min: "Compares and returns the maximum (minimum) of two values."
pub assume_specification<T>[ std::cmp::max ](a: T, b: T) -> (r: T)
    where T: std::cmp::Ord + std::marker::Destruct,
    ensures
        T::obeys_cmp_spec() ==> r == (if a.cmp_spec(&b) == std::cmp::Ordering::Greater { a } else { b }),
;

pub assume_specification<T>[ std::cmp::min ](a: T, b: T) -> (r: T)
    where T: std::cmp::Ord + std::marker::Destruct,
    ensures
        T::obeys_cmp_spec() ==> r == (if a.cmp_spec(&b) == std::cmp::Ordering::Greater { b } else { a }),
;

#[verifier::external_type_specification]
#[verifier::external_body]
pub struct ExIoError(std::io::Error);
