#!/usr/bin/env python3
"""check.py <property> [--tier quick|thorough]

Decides one property: extracts the contracted functions from /repo's working
tree, splices the contracts in, runs Verus on every unit the property depends
on, runs the vacuity probes and the trusted-base scan, (thorough: Kani
harnesses too), writes evidence/<id>.json.

exit 0: every obligation discharged (known findings listed)
exit 1: an obligation tagged with this property failed -> VIOLATION line
exit 2: undecided (lost anchor, unsupported construct, rlimit, probe anomaly,
        new trusted item) -- never an alarm
"""
import concurrent.futures as cf
import json
import os
import re
import sys
import time

HERE = os.path.dirname(os.path.abspath(__file__))
sys.path.insert(0, HERE)
import vrun  # noqa: E402

VERIF = os.path.dirname(HERE)
PROPS = json.load(open(os.path.join(VERIF, 'contracts', 'props.json')))


def load_known():
    """known_findings.txt: one finding per line,
         known: property=<id> obligation=<regex> what=<text>
         fixed: property=<id> <commit> <what failed>        (suppresses nothing)
    """
    p = os.path.join(VERIF, 'known_findings.txt')
    out = []
    if not os.path.exists(p):
        return out
    for l in open(p):
        m = re.match(r'known:\s+property=(\S+)\s+obligation=(\S+)\s+what=(.*)$', l.strip())
        if m:
            out.append({'property': m.group(1), 'obligation': m.group(2), 'what': m.group(3), 'status': 'known'})
    return out


def main():
    args = sys.argv[1:]
    if not args:
        print(__doc__)
        return 2
    pid = args[0]
    tier = os.environ.get('VERIF_TIER', 'quick')
    if '--tier' in args:
        tier = args[args.index('--tier') + 1]
    seed = int(os.environ.get('VERIF_SEED', '0') or 0)
    if pid not in PROPS:
        print('unknown or unclaimed property %s' % pid)
        return 2
    spec = PROPS[pid]
    t0 = time.time()
    unit_dirs = [os.path.join(VERIF, 'contracts', u) for u in spec['units']]
    results = []
    with cf.ThreadPoolExecutor(max_workers=4) as ex:
        futs = [ex.submit(vrun.run_unit, d) for d in unit_dirs]
        for f in futs:
            results.append(f.result())
    kani_results = []
    if spec.get('kani'):
        import kanirun
        kn = [k['obligation'] for k in load_known() if k['property'] == pid]
        for k in spec['kani']:
            kani_results.append(kanirun.run_harness_set(k, tier, kn))
    if tier == 'thorough':
        # stability margin: re-run every unit with the resource limit halved
        with cf.ThreadPoolExecutor(max_workers=4) as ex:
            futs = [ex.submit(vrun.run_unit, d, 50, False) for d in unit_dirs]
            half = [f.result() for f in futs]
    else:
        half = []

    undecided = [r for r in results if r['status'] == 'undecided']
    failures = []
    other_failures = []
    for r in results:
        soft_done = set()
        for f in r['failures']:
            if not (not f['props'] or pid in f['props']):
                other_failures.append(f)
                continue
            if f.get('hints_lost'):
                # the body was rewritten and the proof hints could not be placed: a failed obligation of this
                # function is a violation only if its bounded twin finds a concrete failing input
                fn = f['function']
                if fn in soft_done:
                    continue
                soft_done.add(fn)
                try:
                    import kanirun
                    cex = kanirun.counterexample_for({'function': fn})
                except Exception as e:
                    cex = {'found': False, 'note': str(e)}
                if cex.get('found'):
                    f = dict(f)
                    f['obligation'] = 'twin/%s (body rewritten, proof hints lost; bounded twin %s found a failing input)' % (fn, cex.get('harness'))
                    f['counterexample'] = cex
                    failures.append(f)
                else:
                    undecided.append({'unit': r['unit'], 'status': 'undecided',
                                      'reason': 'hints lost in rewritten %s and its contract no longer verifies; no failing input within the twin bound (%s)' % (fn, cex.get('note'))})
                continue
            failures.append(f)
    for k in kani_results:
        for f in k.get('failures', []):
            # a harness of a shared set that belongs to another property only (e.g. the isolated class of a
            # known finding of that property) is listed, and does not decide this check
            if f.get('props') and pid not in f['props']:
                other_failures.append(f)
                continue
            failures.append(f)
        if k.get('status') == 'undecided':
            undecided.append(k)

    # lost anchor in a contracted function: the proof text no longer fits the changed body.  That alone is
    # "undecided"; but if a Kani twin of that function finds a concrete failing input, it is a violation.
    still_undecided = []
    for r in undecided:
        m = re.search(r'lost-anchor: (?:impl (\S+) :: )?fn (\w+):', r.get('reason') or '')
        found = None
        fname = None
        if m:
            fname = ('%s::%s' % (m.group(1), m.group(2))) if m.group(1) else m.group(2)
        elif r.get('unsupported_fn'):
            # the spliced text of this function no longer compiles (its body was rewritten)
            fname = r['unsupported_fn']
        if fname:
            try:
                import kanirun
                cex = kanirun.counterexample_for({'function': fname})
            except Exception as e:
                cex = {'found': False, 'note': str(e)}
            if cex.get('found'):
                found = {'obligation': 'twin/%s (the proof text no longer fits the changed body; bounded twin %s found a failing input)' % (fname, cex.get('harness')),
                         'function': fname, 'kind': 'kani-twin', 'props': [pid], 'where': [],
                         'message': 'bounded twin %s fails' % cex.get('harness'),
                         'rendered': (r.get('reason') or '') + '\n' + (cex.get('native_output') or '')[-1500:],
                         'counterexample': cex}
        if found:
            failures.append(found)
        else:
            still_undecided.append(r)
    undecided = still_undecided
    known = [k for k in load_known() if k['property'] == pid and k.get('status', 'known') == 'known']
    violations = []
    known_hits = []
    for f in failures:
        hit = None
        for k in known:
            if re.search(k['obligation'], f['obligation']):
                hit = k
                break
        if hit:
            known_hits.append((hit, f))
        else:
            violations.append(f)

    # ---------------- evidence
    fn_contract = []
    n_oblig = 0
    n_disch = 0
    solver_ms = 0
    trusted = set()
    dropped = []
    probes = {'expected': 0, 'rejected': 0}
    samples = []
    per_fn = []
    excused_fns = []
    for r in results:
        solver_ms += r.get('solver_ms', 0)
        for t in r.get('trusted', []):
            trusted.add('%s: %s' % (r['unit'], t))
        dropped += r.get('dropped', [])
        for it in r.get('items', []):
            if it['kind'] == 'fn' and it['has_contract']:
                fn_contract.append({'unit': r['unit'], 'file': it['file'], 'fn': vrun.fn_display(it),
                                    'line': it['line'], 'assumed': it['assumed'],
                                    'props': it['props']})
        # functions whose only failures are listed known findings / belong to another property
        mine = set(f['function'] for f in violations if f in r['failures'])
        excused = set(f['function'] for f in r['failures']) - mine
        for fn in r.get('functions', []):
            short = fn['name'].split('::')[-2:] if '::' in fn['name'] else [fn['name']]
            if not fn['success'] and any(e.endswith('::'.join(short)) or e == short[-1] for e in excused):
                excused_fns.append('%s/%s' % (r['unit'], fn['name']))
                continue
            n_oblig += 1
            if fn['success']:
                n_disch += 1
            per_fn.append({'unit': r['unit'], 'function': fn['name'], 'mode': fn['mode'],
                           'ok': fn['success'], 'time_us': fn['time_us'], 'rlimit': fn['rlimit']})
        if r.get('probes'):
            probes['expected'] += r['probes']['expected']
            probes['rejected'] += r['probes']['rejected']
            n_oblig += r['probes']['expected'] - len(r['probes']['missing_loop'])
            n_disch += r['probes']['rejected']
    bounded = []
    for k in kani_results:
        for h in k.get('harnesses', []):
            if h.get('complete'):
                n_oblig += 1
                n_disch += 1 if h['ok'] else 0
            else:
                bounded.append({'harness': h['name'], 'bound': h.get('bound'), 'ok': h['ok'],
                                'time_s': h.get('time_s')})
        for t in k.get('trusted', []):
            trusted.add('kani: ' + t)
    slow = sorted(per_fn, key=lambda x: -x['time_us'])[:8]
    samples = [{'obligation': '%s/%s (%s)' % (x['unit'], x['function'], x['mode']),
                'discharged': x['ok'], 'solver_us': x['time_us'], 'rlimit': x['rlimit']} for x in slow]
    fragile = []
    for r in half:
        if r['status'] != 'ok':
            fragile.append({'unit': r['unit'], 'at_half_rlimit': r['status'], 'reason': r.get('reason'),
                            'failed': [f['obligation'] for f in r['failures']][:10]})
    ev = {
        'property_id': pid, 'tier': tier, 'seed': seed, 'level': spec.get('level', 'proof'),
        'coverage': {
            'obligations': n_oblig, 'discharged': n_disch,
            'checker_cmd': ' ; '.join(r['cmd'] for r in results if r.get('cmd')),
            'trusted_base': sorted(trusted),
            'samples': samples,
            'explanation': 'obligations = Verus function-level queries (exec bodies against their contracts, '
                           'lemmas, spec-fn termination) in the units this property depends on + vacuity probes '
                           '(assert(false) spliced at the head of every contracted body; each must be rejected) '
                           '+ complete (loop-free / full-domain) Kani harnesses. Bounded Kani harnesses are listed '
                           'under `bounded` and never counted.',
            'units': [r['unit'] for r in results],
            'functions_under_contract': fn_contract,
            'functions_proved': sum(1 for f in fn_contract if not f['assumed']),
            'functions_assumed': sum(1 for f in fn_contract if f['assumed']),
            'backend': 'verus 0.2026.09.13 / z3' + (' ; kani 0.68 / cbmc' if kani_results else ''),
            'solver_ms': solver_ms,
            'probes': probes,
            'bounded': bounded,
            'extraction_dropped': sorted(set(re.sub(r' x\d+$', '', d) for d in dropped))[:200],
            'erasure_check': all(r.get('erasure_ok') for r in results),
            'other_property_failures': sorted(set(f['obligation'] for f in other_failures)),
            'known_findings': sorted(set('%s: %s' % (f['obligation'], k['what'][:200]) for k, f in known_hits)),
            'functions_not_counted_because_of_known_or_foreign_failures': excused_fns,
            'fragile_at_half_rlimit': fragile,
            'undecided': [{'unit': r.get('unit'), 'reason': r.get('reason')} for r in undecided],
        },
        'assumptions': spec.get('assumptions', []) + [
            'machine integers are machine integers (Verus proves absence of overflow); no mathematical-integer idealisation',
            'termination of callee code outside the units, absence of panics in assumed functions',
        ],
        'wall_s': round(time.time() - t0, 2),
        'violations': len(violations),
    }
    evdir = os.environ.get('VERIF_EVIDENCE_DIR', os.path.join(VERIF, 'evidence'))
    os.makedirs(evdir, exist_ok=True)
    with open(os.path.join(evdir, pid + '.json'), 'w') as f:
        json.dump(ev, f, indent=1)

    seen_k = set()
    for k, f in known_hits:
        if f['obligation'] in seen_k:
            continue
        seen_k.add(f['obligation'])
        print('KNOWN-FINDING: property=%s %s [%s]' % (pid, k['what'], f['obligation']))
    # listed findings that did not show up at all (e.g. fixed upstream): say so, no alarm
    rc = 0
    if violations:
        rdir = os.path.join(VERIF, 'replay') if 'VERIF_EVIDENCE_DIR' not in os.environ else os.path.join(os.environ['VERIF_EVIDENCE_DIR'], 'replay')
        os.makedirs(rdir, exist_ok=True)
        seen = set()
        n = 0
        for f in violations:
            if f['obligation'] in seen:
                continue
            seen.add(f['obligation'])
            n += 1
            rp = os.path.join(rdir, '%s-%d.json' % (pid, n))
            cex = None
            try:
                import kanirun
                cex = kanirun.counterexample_for(f)
            except Exception as e:  # no twin / kani problem: still a violation, without input
                cex = {'found': False, 'note': 'counterexample search unavailable: %s' % e}
            rec = {'property': pid, 'obligation': f['obligation'], 'kind': f['kind'],
                   'function': f.get('function'), 'where': f.get('where'),
                   'verifier_output': f.get('rendered') or f.get('message'),
                   'counterexample': cex}
            with open(rp, 'w') as fh:
                json.dump(rec, fh, indent=1)
            tail = '' if (cex and cex.get('found')) else ' no-failing-input-found'
            print('obligation failed: %s' % f['obligation'])
            print('VIOLATION property=%s replay=%s%s' % (pid, rp, tail))
        rc = 1
    elif undecided:
        for r in undecided:
            print('UNDECIDED unit=%s reason=%s' % (r.get('unit'), r.get('reason')))
        rc = 2
    else:
        print('OK property=%s tier=%s obligations=%d discharged=%d solver_ms=%d wall_s=%.1f' %
              (pid, tier, n_oblig, n_disch, solver_ms, time.time() - t0))
    return rc


if __name__ == '__main__':
    sys.exit(main())
