// ===== SPEC: lemmas relating "no line in a range matches" across sub-slices (no executable code) =====
pub proof fn lemma_no_match_empty(p: spec_fn(Seq<u8>) -> bool, b: Seq<u8>, lt: LineTerminator, lo: int)
    ensures no_match_in(p, b, lt, lo, lo),
{
    let t = lt.byte_view();
    assert forall|s: int, e: int| #![trigger one_line(b, t, s, e)]
        lo <= s && e <= lo && one_line(b, t, s, e) implies !lm(p, b, lt, s, e) by {
        lemma_one_line_props(b, t, s, e);
    }
}

/// from a suffix (starting at a line start) to the whole buffer
pub proof fn lemma_no_match_shift(p: spec_fn(Seq<u8>) -> bool, b: Seq<u8>, lt: LineTerminator, pos: int, hi: int)
    requires
        0 <= pos <= b.len(), is_line_start(b, lt.byte_view(), pos), 0 <= hi <= b.len() - pos,
        no_match_in(p, b.subrange(pos, b.len() as int), lt, 0, hi),
    ensures no_match_in(p, b, lt, pos, pos + hi),
{
    let t = lt.byte_view();
    let sub = b.subrange(pos, b.len() as int);
    assert forall|s: int, e: int| #![trigger one_line(b, t, s, e)]
        pos <= s && e <= pos + hi && one_line(b, t, s, e) implies !lm(p, b, lt, s, e) by {
        lemma_one_line_props(b, t, s, e);
        lemma_one_line_shift(b, t, pos, s - pos, e - pos);
        assert(one_line(sub, t, s - pos, e - pos));
        assert(!lm(p, sub, lt, s - pos, e - pos));
        reveal(lm);
    }
}

/// lm of a suffix's line is lm of the buffer's line
pub proof fn lemma_lm_shift(p: spec_fn(Seq<u8>) -> bool, b: Seq<u8>, lt: LineTerminator, pos: int, s: int, e: int)
    requires 0 <= pos <= b.len(), 0 <= s <= e <= b.len() - pos, line_bound(b, lt.byte_view(), pos),
    ensures lm(p, b.subrange(pos, b.len() as int), lt, s, e) == lm(p, b, lt, pos + s, pos + e),
{
    lemma_one_line_shift(b, lt.byte_view(), pos, s, e);
    reveal(lm);
}

pub proof fn lemma_no_match_join(p: spec_fn(Seq<u8>) -> bool, b: Seq<u8>, lt: LineTerminator, lo: int, mid: int, hi: int)
    requires
        no_match_in(p, b, lt, lo, mid), no_match_in(p, b, lt, mid, hi),
        0 <= mid <= b.len(), line_bound(b, lt.byte_view(), mid),
    ensures no_match_in(p, b, lt, lo, hi),
{
    let t = lt.byte_view();
    assert forall|s: int, e: int| #![trigger one_line(b, t, s, e)]
        lo <= s && e <= hi && one_line(b, t, s, e) implies !lm(p, b, lt, s, e) by {
        lemma_one_line_props(b, t, s, e);
        if s < mid && mid < e {
            // mid is strictly inside the line: impossible, b[mid-1] is a terminator
            reveal(one_line);
            assert(b[mid - 1] == t);
            assert(false);
        }
    }
}

/// extend by one more non-matching line
pub proof fn lemma_no_match_one(p: spec_fn(Seq<u8>) -> bool, b: Seq<u8>, lt: LineTerminator, lo: int, s0: int, e0: int)
    requires no_match_in(p, b, lt, lo, s0), one_line(b, lt.byte_view(), s0, e0), !lm(p, b, lt, s0, e0),
    ensures no_match_in(p, b, lt, lo, e0),
{
    let t = lt.byte_view();
    lemma_one_line_props(b, t, s0, e0);
    assert forall|s: int, e: int| #![trigger one_line(b, t, s, e)]
        lo <= s && e <= e0 && one_line(b, t, s, e) implies !lm(p, b, lt, s, e) by {
        lemma_one_line_props(b, t, s, e);
        if e > s0 {
            lemma_lines_disjoint(b, t, s, e, s0, e0);
        }
    }
}

/// a terminator just before i makes i its own line start
pub proof fn lemma_line_start_of_at_bound(b: Seq<u8>, t: u8, i: int)
    requires 0 <= i <= b.len(), is_line_start(b, t, i),
    ensures line_start_of(b, t, i) == i,
{}
