//! C01 (regex half), bounded NATIVE enumeration (not Kani, not a proof): the ASSUMED trait contract
//! T-Matcher (contracts/common/prelude_matcher.rs), on which the Verus proof of the line searcher rests,
//! is validated for the real grep-regex `RegexMatcher` (path dependency on /repo, configured exactly as
//! crates/core/flags/hiargs.rs::matcher_rust configures it for line-oriented search), for every pattern of
//! a small token grammar and a small regex AST, every option of {plain, -i, -w, -x, -S} and every haystack
//! over {a, b, A, space, \n}
//! up to a length bound.
//!
//! Ghost semantics of the contract, made executable: m_find_at(h, at) = the leftmost match of the
//! `regex` crate's Regex for the same pattern (with (?m), and the documented meaning of -i / -w / -x)
//! at or after `at`, with look-around evaluated against all of h; m_pred(x) = that regex matches in x.
//! Clauses checked (names as in the contract):
//!   find_at      : RegexMatcher::find_at(h, at) == m_find_at(h, at), for every at
//!   is_match     : == m_pred(h);  shortest_match: Some iff m_pred(h)
//!   m_excludes   : line_terminator() = Some(t) => no match of h contains t; non_matching_bytes likewise
//!   candidate_ok : find_candidate_line(h): None => no line of h matches IN ISOLATION (terminator
//!                  stripped); Candidate(i)/Confirmed(i) => no line before i's line matches; Confirmed(i)
//!                  => i's line matches in isolation.  (This is "line locality": what the fast path needs.)
use grep_matcher::{LineMatchKind, Matcher};
use grep_regex::RegexMatcherBuilder;

const TOKENS: &[&str] = &["a", "b", ".", "[ab]", "(a|b)", "^", "$", r"\A", r"\z", r"\b", "?", "*", "+", "{0,2}", "|", " ", r"\s", r"\p{Lu}"];
const ALPHA: &[u8] = b"abA \n";

fn words(max: usize) -> Vec<String> {
    let mut out = vec![];
    let mut cur = vec![String::new()];
    for _ in 0..max {
        let mut next = vec![];
        for w in &cur {
            for t in TOKENS {
                next.push(format!("{}{}", w, t));
            }
        }
        out.extend(next.iter().cloned());
        cur = next;
    }
    out
}

/// every pattern with at most `max` nodes of a small regex AST: atoms, postfix repetition, concatenation,
/// alternation, capturing and non-capturing groups (so that e.g. `a(\s+)b` and `(?:a|\A)b` are reached)
fn ast_patterns(max: usize) -> Vec<String> {
    const ATOMS: &[&str] = &["a", "b", "A", " ", ".", r"\s", "[ab]", "[^a]", "[A-b]", "[0-B]", "^", "$", r"\A", r"\z", r"\b"];
    // (text, is_atomic): atomic = can take a postfix operator / be concatenated without parentheses
    let mut by_size: Vec<Vec<(String, bool)>> = vec![vec![], ATOMS.iter().map(|a| (a.to_string(), true)).collect()];
    for n in 2..=max {
        let mut cur: Vec<(String, bool)> = vec![];
        let wrap = |e: &(String, bool)| if e.1 { e.0.clone() } else { format!("(?:{})", e.0) };
        for e in &by_size[n - 1] {
            for op in ["?", "*", "+", "{0,2}", "{12}"] {
                cur.push((format!("{}{}", wrap(e), op), false));
            }
            cur.push((format!("({})", e.0), true));
        }
        // concatenation is free (sizes add up), alternation costs one node
        for i in 1..n {
            let j = n - i;
            for l in &by_size[i] {
                for r in &by_size[j] {
                    let (ls, rs) = (if l.0.contains('|') && !l.1 { format!("(?:{})", l.0) } else { l.0.clone() }, if r.0.contains('|') && !r.1 { format!("(?:{})", r.0) } else { r.0.clone() });
                    // a postfix operator binds to the last atom only, so a concatenation is not atomic
                    cur.push((format!("{}{}", ls, rs), false));
                }
            }
        }
        for i in 1..n - 1 {
            let j = n - 1 - i;
            for l in &by_size[i] {
                for r in &by_size[j] {
                    cur.push((format!("{}|{}", l.0, r.0), false));
                }
            }
        }
        by_size.push(cur);
    }
    let mut out: Vec<String> = by_size.into_iter().flatten().map(|e| e.0).collect();
    out.sort();
    out.dedup();
    out
}

fn inputs(max: usize) -> Vec<Vec<u8>> {
    let mut out: Vec<Vec<u8>> = vec![vec![]];
    let mut cur: Vec<Vec<u8>> = vec![vec![]];
    for _ in 0..max {
        let mut next = vec![];
        for w in &cur {
            for &b in ALPHA {
                let mut v = w.clone();
                v.push(b);
                next.push(v);
            }
        }
        out.extend(next.iter().cloned());
        cur = next;
    }
    // long runs of one byte, for counted repetitions such as `a{12}` (the literal extractor treats large
    // counts specially)
    for x in [b'a', b'b'] { for pre in ["", "a", "b", " "] { for suf in ["", "a", "b", " "] {
        let mut v = pre.as_bytes().to_vec();
        v.extend(std::iter::repeat(x).take(12));
        v.extend_from_slice(suf.as_bytes());
        out.push(v);
    }}}
    out.sort();
    out.dedup();
    out
}

/// the real matcher, as `rg [-i|-w|-x] PATTERN` builds it (no -U)
fn real(pattern: &str, opt: u32) -> Option<grep_regex::RegexMatcher> {
    let mut b = RegexMatcherBuilder::new();
    b.multi_line(true).unicode(true).octal(false);
    b.case_insensitive(opt == 1);
    if opt == 4 {
        b.case_smart(true);
    }
    if opt == 2 {
        b.word(true);
    }
    if opt == 3 {
        b.whole_line(true);
    }
    b.line_terminator(Some(b'\n')).dot_matches_new_line(false);
    b.build(pattern).ok()
}

/// the reference semantics: the regex library on the same pattern with the documented meaning of the options
fn oracle(pattern: &str, opt: u32) -> Option<regex::bytes::Regex> {
    let p = match opt {
        2 => format!(r"\b{{start-half}}(?:{})\b{{end-half}}", pattern),
        3 => format!(r"^(?:{})$", pattern),
        _ => pattern.to_string(),
    };
    // -S (documented): case-insensitive iff no literal of the pattern is uppercase; literals are the pattern's
    // characters outside escape sequences (class members and range ends included)
    let smart_insensitive = opt == 4 && has_literal(pattern) && !has_uppercase_literal(pattern);
    regex::bytes::RegexBuilder::new(&p).multi_line(true).unicode(true).case_insensitive(opt == 1 || smart_insensitive).build().ok()
}

/// "the pattern contains at least one literal character" (`\\w` or `\\pL` are not literals; class members are)
fn has_literal(pattern: &str) -> bool {
    let b = pattern.as_bytes();
    let mut i = 0;
    while i < b.len() {
        if b[i] == b'\\' {
            // \\p{..} / \\P{..}
            if i + 2 < b.len() && (b[i + 1] == b'p' || b[i + 1] == b'P') && b[i + 2] == b'{' {
                while i < b.len() && b[i] != b'}' { i += 1; }
                i += 1;
            } else { i += 2; }
            continue;
        }
        if b[i] == b'{' { while i < b.len() && b[i] != b'}' { i += 1; } i += 1; continue; } // {0,2}, {12}
        if b[i].is_ascii_alphanumeric() || b[i] == b' ' { return true; }
        i += 1;
    }
    false
}

fn has_uppercase_literal(pattern: &str) -> bool {
    let b = pattern.as_bytes();
    let mut i = 0;
    while i < b.len() {
        if b[i] == b'\\' {
            if i + 2 < b.len() && (b[i + 1] == b'p' || b[i + 1] == b'P') && b[i + 2] == b'{' { while i < b.len() && b[i] != b'}' { i += 1; } i += 1; } else { i += 2; }
            continue;
        }
        if b[i].is_ascii_uppercase() { return true; }
        i += 1;
    }
    false
}

fn line_start_of(h: &[u8], i: usize) -> usize {
    let mut i = i;
    while i > 0 && h[i - 1] != b'\n' {
        i -= 1;
    }
    i
}
fn line_end_from(h: &[u8], i: usize) -> usize {
    let mut i = i;
    while i < h.len() {
        if h[i] == b'\n' {
            return i + 1;
        }
        i += 1;
    }
    h.len()
}
fn strip(l: &[u8]) -> &[u8] {
    if l.ends_with(b"\n") { &l[..l.len() - 1] } else { l }
}
/// some line lying wholly inside h[0..hi) matches in isolation
fn some_line_matches_before(re: &regex::bytes::Regex, h: &[u8], hi: usize) -> Option<(usize, usize)> {
    let mut s = 0;
    while s < hi {
        let e = line_end_from(h, s);
        if e <= hi && s < e && re.is_match(strip(&h[s..e])) {
            return Some((s, e));
        }
        s = e;
    }
    None
}

fn check(m: &grep_regex::RegexMatcher, re: &regex::bytes::Regex, h: &[u8]) -> Option<String> {
    // m_excludes and internal consistency, on every haystack
    let lt = m.line_terminator().map(|t| t.as_byte());
    let nmb = m.non_matching_bytes();
    let free = !h.contains(&b'\n');
    for at in 0..=h.len() {
        let got = m.find_at(h, at).unwrap().map(|x| (x.start(), x.end()));
        if let Some((s, e)) = got {
            if !(at <= s && s <= e && e <= h.len()) {
                return Some(format!("find_at(h, {}) = {:?} is not a range at or after {} inside the haystack", at, got, at));
            }
            // `rg` without -U builds the matcher with line_terminator(Some(b'\n')): no match may contain it,
            // whether or not line_terminator() reports it back
            if h[s..e].contains(&b'\n') {
                return Some(format!("the matcher was told that no match contains the line terminator, but find_at(h, {}) = {:?} does", at, got));
            }
            if let Some(set) = nmb {
                if let Some(b) = h[s..e].iter().find(|&&b| set.contains(b)) {
                    return Some(format!("non_matching_bytes() contains {:?} but the match {:?} contains it", *b as char, (s, e)));
                }
            }
        }
        // the reference semantics is defined on terminator-free haystacks (lines): exact agreement there
        if free {
            let want = re.find_at(h, at).map(|x| (x.start(), x.end()));
            if got != want {
                return Some(format!("find_at(h, {}) = {:?}, the reference semantics gives {:?}", at, got, want));
            }
        }
    }
    let found = m.find(h).unwrap().is_some();
    if m.is_match(h).unwrap() != found || m.shortest_match(h).unwrap().is_some() != found {
        return Some(format!("find(h) is {}, is_match(h) = {}, shortest_match(h) = {:?}: they disagree", if found { "Some" } else { "None" }, m.is_match(h).unwrap(), m.shortest_match(h).unwrap()));
    }
    if free && found != re.is_match(h) {
        return Some(format!("is_match(h) = {}, the reference semantics gives {}", found, !found));
    }
    // candidate_ok (only used by the searcher when the matcher names a line terminator)
    if lt == Some(b'\n') {
        match m.find_candidate_line(h).unwrap() {
            None => {
                if let Some(l) = some_line_matches_before(re, h, h.len()) {
                    return Some(format!("find_candidate_line(h) = None but line {:?} matches in isolation", l));
                }
            }
            Some(k) => {
                let (i, confirmed) = match k {
                    LineMatchKind::Candidate(i) => (i, false),
                    LineMatchKind::Confirmed(i) => (i, true),
                };
                if i > h.len() {
                    return Some(format!("find_candidate_line(h) position {} is outside the haystack", i));
                }
                if !confirmed && !(i < h.len() || (i > 0 && h[i - 1] != b'\n')) {
                    return Some(format!("Candidate({}) is not a position in a line", i));
                }
                let s = line_start_of(h, i);
                if let Some(l) = some_line_matches_before(re, h, s) {
                    return Some(format!("find_candidate_line(h) = {:?} passes over line {:?}, which matches in isolation", k, l));
                }
                if confirmed {
                    let e = line_end_from(h, i);
                    if s < e && !re.is_match(strip(&h[s..e])) {
                        return Some(format!("find_candidate_line(h) = Confirmed({}) but its line {:?} does not match in isolation", i, (s, e)));
                    }
                }
            }
        }
    }
    None
}

fn hex(b: &[u8]) -> String {
    if b.is_empty() { return "-".to_string(); }
    b.iter().map(|x| format!("{:02x}", x)).collect()
}
fn unhex(h: &str) -> Vec<u8> {
    if h == "-" { return vec![]; }
    (0..h.len() / 2).map(|i| u8::from_str_radix(&h[2 * i..2 * i + 2], 16).unwrap()).collect()
}
fn report(pattern: &str, opt: u32, h: &[u8], what: &str) {
    println!("FAILING CASE matcher-contract pattern={:?} option={} haystack={:?}: {}", pattern, ["plain", "-i", "-w", "-x", "-S"][opt as usize], String::from_utf8_lossy(h), what);
    println!("VERIF_REPLAY_PATTERN={} VERIF_REPLAY_OPT={} VERIF_REPLAY_INPUT={}", hex(pattern.as_bytes()), opt, hex(h));
}

fn main() {
    if let Ok(p) = std::env::var("VERIF_REPLAY_PATTERN") {
        let pattern = String::from_utf8(unhex(&p)).unwrap();
        let opt: u32 = std::env::var("VERIF_REPLAY_OPT").unwrap().parse().unwrap();
        let h = unhex(&std::env::var("VERIF_REPLAY_INPUT").unwrap());
        let (m, re) = (real(&pattern, opt).unwrap(), oracle(&pattern, opt).unwrap());
        match check(&m, &re, &h) {
            Some(w) => { report(&pattern, opt, &h, &w); std::process::exit(1); }
            None => { println!("replayed case agrees"); return; }
        }
    }
    let toks: usize = std::env::var("VERIF_MATCHER_TOKENS").ok().and_then(|s| s.parse().ok()).unwrap_or(3);
    let len: usize = std::env::var("VERIF_MATCHER_LEN").ok().and_then(|s| s.parse().ok()).unwrap_or(4);
    let mut pats = words(toks);
    let ast: usize = std::env::var("VERIF_MATCHER_AST").ok().and_then(|s| s.parse().ok()).unwrap_or(0);
    pats.extend(ast_patterns(ast));
    pats.sort();
    pats.dedup();
    let ins = inputs(len);
    eprintln!("matcher contract: {} pattern strings x 5 options x {} haystacks", pats.len(), ins.len());
    let next = std::sync::atomic::AtomicUsize::new(0);
    let best: std::sync::Mutex<Option<(usize, u32, usize, String)>> = std::sync::Mutex::new(None);
    let survey = std::env::var("VERIF_MATCHER_ALL").is_ok();
    let threads = std::thread::available_parallelism().map(|x| x.get()).unwrap_or(4).min(16);
    std::thread::scope(|s| {
        for _ in 0..threads {
            s.spawn(|| loop {
                let k = next.fetch_add(1, std::sync::atomic::Ordering::SeqCst);
                if k >= pats.len() { break; }
                if !survey { if let Some(ref b) = *best.lock().unwrap() { if b.0 < k { break; } } }
                'opts: for opt in 0..5u32 {
                    let (m, re) = match (real(&pats[k], opt), oracle(&pats[k], opt)) {
                        (Some(m), Some(re)) => (m, re),
                        _ => continue,
                    };
                    for (ii, h) in ins.iter().enumerate() {
                        if let Some(w) = check(&m, &re, h) {
                            if survey {
                                println!("ALL pattern={:?} opt={} h={:?} {}", pats[k], opt, String::from_utf8_lossy(h), w);
                                continue 'opts;
                            }
                            let mut b = best.lock().unwrap();
                            if b.as_ref().map_or(true, |o| (k, opt, ii) < (o.0, o.1, o.2)) { *b = Some((k, opt, ii, w)); }
                            break 'opts;
                        }
                    }
                }
            });
        }
    });
    match best.into_inner().unwrap() {
        Some((k, opt, ii, w)) => { report(&pats[k], opt, &ins[ii], &w); std::process::exit(1); }
        None => println!("matcher twin tokens<={} len<={}: the contract holds in all cases", toks, len),
    }
}
