//! Verification shim for the parts of `bstr` used by the extracted functions: plain loops with the
//! documented results (the real crate goes through memchr's SIMD paths).
pub trait ByteSlice {
    fn as_bytes_shim(&self) -> &[u8];
    fn as_bytes_mut(&mut self) -> &mut [u8];
    fn last_byte(&self) -> Option<u8> {
        let b = self.as_bytes_shim();
        if b.is_empty() { None } else { Some(b[b.len() - 1]) }
    }
    fn find_byte(&self, byte: u8) -> Option<usize> {
        let b = self.as_bytes_shim();
        let mut i = 0;
        while i < b.len() {
            if b[i] == byte { return Some(i); }
            i += 1;
        }
        None
    }
    fn rfind_byte(&self, byte: u8) -> Option<usize> {
        let b = self.as_bytes_shim();
        let mut i = b.len();
        while i > 0 {
            i -= 1;
            if b[i] == byte { return Some(i); }
        }
        None
    }
}
impl ByteSlice for [u8] {
    fn as_bytes_shim(&self) -> &[u8] { self }
    fn as_bytes_mut(&mut self) -> &mut [u8] { self }
}

impl ByteSlice for Vec<u8> {
    fn as_bytes_shim(&self) -> &[u8] { self }
    fn as_bytes_mut(&mut self) -> &mut [u8] { self }
}
pub trait ByteVec {
    fn drain_bytes_to(&mut self, upto: usize);
    /// `drain_bytes(..n)`: removes the first n bytes
    fn drain_bytes(&mut self, r: std::ops::RangeTo<usize>) {
        self.drain_bytes_to(r.end)
    }
}
impl ByteVec for Vec<u8> {
    fn drain_bytes_to(&mut self, upto: usize) {
        let rest: Vec<u8> = self[upto..].to_vec();
        *self = rest;
    }
}
