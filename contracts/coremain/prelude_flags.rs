// HiArgs: the high-level arguments (crates/core/flags/hiargs.rs), opaque here; its getters are
// ASSUMED pure functions of the parsed command line.
#[verifier::external_body]
pub struct HiArgs { _p: () }

impl HiArgs {
    pub uninterp spec fn v_mode(&self) -> Mode;
    pub uninterp spec fn v_matches_possible(&self) -> bool;
    pub uninterp spec fn v_threads(&self) -> usize;
    pub uninterp spec fn v_quiet(&self) -> bool;
    // the other bool getters of HiArgs exist too (independent facts about the command line), so that a
    // body that consults the wrong one still compiles and fails its contract instead of being "unsupported"
    pub uninterp spec fn v_quit_after_match(&self) -> bool;
    pub uninterp spec fn v_has_implicit_path(&self) -> bool;

    #[verifier::external_body]
    pub(crate) fn mode(&self) -> (r: Mode) ensures r == self.v_mode() { unimplemented!() }
    #[verifier::external_body]
    pub(crate) fn matches_possible(&self) -> (r: bool) ensures r == self.v_matches_possible() { unimplemented!() }
    #[verifier::external_body]
    pub(crate) fn threads(&self) -> (r: usize) ensures r == self.v_threads() { unimplemented!() }
    #[verifier::external_body]
    pub(crate) fn quiet(&self) -> (r: bool) ensures r == self.v_quiet() { unimplemented!() }
    #[verifier::external_body]
    pub(crate) fn quit_after_match(&self) -> (r: bool) ensures r == self.v_quit_after_match() { unimplemented!() }
    #[verifier::external_body]
    pub(crate) fn has_implicit_path(&self) -> (r: bool) ensures r == self.v_has_implicit_path() { unimplemented!() }
}
