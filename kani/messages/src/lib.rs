//! C15 (error reporting sets the exit-status flag): the real crates/core/messages.rs, compiled as the
//! crate-root module `messages` (its macros refer to `crate::messages::…`), nothing restated.
#![allow(dead_code)]
#[macro_use]
#[path = "@REPO@/crates/core/messages.rs"]
pub mod messages;

/// one use of each macro, in a function of the real shape (`err_message!` as a statement)
pub fn report_error(code: u32) {
    err_message!("error {}", code);
}
pub fn report_plain(code: u32) {
    message!("note {}", code);
}
pub fn report_ignore(code: u32) {
    ignore_message!("ignore {}", code);
}

#[cfg(kani)]
mod proofs {
    use super::*;
    /// for EVERY state of the two message switches: err_message! records the error (the exit status
    /// depends on it), message!/ignore_message! never do
    #[kani::proof]
    fn err_message_sets_errored_for_all_switch_states() {
        let m: bool = kani::any();
        let i: bool = kani::any();
        messages::set_messages(m);
        messages::set_ignore_messages(i);
        assert!(!messages::errored());
        report_plain(1);
        report_ignore(2);
        assert!(!messages::errored());
        report_error(3);
        assert!(messages::errored());
    }
}

#[cfg(test)]
mod native {
    use super::*;
    /// one switch state per process (ERRORED cannot be reset through the module's API); the registered
    /// command runs the four states `VERIF_REPLAY_CASE=00|01|10|11`
    #[test]
    #[ignore]
    fn exhaustive_native() {
        let case = std::env::var("VERIF_REPLAY_CASE").unwrap_or_else(|_| "00".to_string());
        let (m, i) = (&case[0..1] == "1", &case[1..2] == "1");
        assert!(!messages::errored());
        messages::set_messages(m);
        messages::set_ignore_messages(i);
        report_plain(1);
        report_ignore(2);
        if messages::errored() {
            println!("FAILING CASE message!/ignore_message! set the error flag: messages={} ignore_messages={}", m, i);
            println!("VERIF_REPLAY_CASE={}", case);
            panic!();
        }
        report_error(3);
        if !messages::errored() {
            println!("FAILING CASE err_message! did not set the error flag: messages={} ignore_messages={}", m, i);
            println!("VERIF_REPLAY_CASE={}", case);
            panic!();
        }
    }
}
