#!/usr/bin/env python3
"""seed_eval.py [ids...]: run the quick check of each seeded change's property against a scratch worktree
of /repo with the change applied (VERIF_REPO points the extractor there); record the outcome in meta.json."""
import json, os, re, subprocess, sys
VERIF = '/verif'
WT = '/tmp/seedeval'
def main():
    only = sys.argv[1:]
    subprocess.run('git -C /repo worktree remove --force %s' % WT, shell=True, stdout=subprocess.DEVNULL, stderr=subprocess.DEVNULL)
    subprocess.run('git -C /repo worktree add -q %s HEAD' % WT, shell=True, check=True)
    env = dict(os.environ, VERIF_REPO=WT, VERIF_EVIDENCE_DIR='/tmp/seedeval_evidence')
    rows = []
    try:
        for sid in sorted(os.listdir(os.path.join(VERIF, 'seeded'))):
            if only and sid not in only:
                continue
            d = os.path.join(VERIF, 'seeded', sid)
            mp = os.path.join(d, 'meta.json')
            meta = json.load(open(mp))
            prop = meta['property']
            subprocess.run('git checkout -q -- . && git clean -fdq crates', cwd=WT, shell=True)
            a = subprocess.run('git apply %s' % os.path.join(d, 'patch.diff'), cwd=WT, shell=True)
            if a.returncode != 0:
                rows.append((sid, 'patch does not apply')); continue
            props = [prop] + [p for p in meta.get('also_check', [])]
            res = {}
            for p in props:
                if p not in json.load(open(os.path.join(VERIF, 'contracts', 'props.json'))):
                    res[p] = {'rc': None, 'note': 'property not claimed'}; continue
                r = subprocess.run(['python3', os.path.join(VERIF, 'tools', 'check.py'), p, '--tier', 'quick'], cwd=VERIF, env=env,
                                   stdout=subprocess.PIPE, stderr=subprocess.STDOUT, text=True)
                obl = sorted(set(re.findall(r'obligation failed: (\S+)', r.stdout)))
                und = re.findall(r'UNDECIDED unit=(\S+) reason=(.*)', r.stdout)
                res[p] = {'rc': r.returncode, 'verdict': {0: 'MISSED (check passes)', 1: 'DETECTED', 2: 'UNDECIDED'}.get(r.returncode, '?'),
                          'failed_obligations': obl[:8], 'undecided': [u[1][:200] for u in und][:3],
                          'replay_has_input': 'no-failing-input-found' not in r.stdout if r.returncode == 1 else None}
            meta['check_result'] = res
            json.dump(meta, open(mp, 'w'), indent=1)
            rows.append((sid, {p: res[p].get('verdict', res[p].get('note')) for p in res}, res[prop].get('failed_obligations', [])[:2], res[prop].get('undecided', [])[:1]))
            print(rows[-1]); sys.stdout.flush()
    finally:
        subprocess.run('git -C /repo worktree remove --force %s' % WT, shell=True)
if __name__ == '__main__':
    main()
