// ===== TRUSTED: assumed specifications of dependencies (T-bstr / T-memchr / T-std) =====
// Each item below is an assumption.  It restates upstream documentation.

// Verus does not support std's assert_eq! (it goes through core::panicking::assert_failed);
// `assert_eq!(a, b)` is read as `assert!(a == b)`, which Verus turns into a proof obligation.
macro_rules! assert_eq { ($a:expr, $b:expr $(,)?) => { assert!($a == $b) }; }

// `log::trace!` / `log::debug!`: assumed to have no effect on results.
pub mod log {
    macro_rules! trace_ { ($($t:tt)*) => {}; }
    macro_rules! debug_ { ($($t:tt)*) => {}; }
    pub(crate) use trace_ as trace;
    pub(crate) use debug_ as debug;
}

pub mod bstr {
use vstd::prelude::*;
use crate::*;
// bstr::ByteSlice::{find_byte, rfind_byte}: "Returns the index of the first
// (last) occurrence of the given byte. If the byte does not occur, None."
pub trait ByteSlice {
    fn find_byte(&self, byte: u8) -> Option<usize>;
    fn rfind_byte(&self, byte: u8) -> Option<usize>;
    fn as_bytes_mut(&mut self) -> &mut [u8];
    fn find_iter<'a>(&'a self, needle: &'a [u8]) -> FindIter<'a>;
}

/// number of leftmost, non-overlapping occurrences of `needle` in `hay[from..]`
pub open spec fn occ(hay: Seq<u8>, needle: Seq<u8>, from: int) -> nat
    decreases hay.len() - from,
{
    if needle.len() == 0 || from < 0 || from + needle.len() > hay.len() {
        0
    } else if hay.subrange(from, from + needle.len()) == needle {
        1 + occ(hay, needle, from + needle.len())
    } else {
        occ(hay, needle, from + 1)
    }
}

// bstr::ByteSlice::find_iter(needle).count(): "an iterator over the non-overlapping occurrences"
pub struct FindIter<'a> { pub hay: &'a [u8], pub needle: &'a [u8] }
impl<'a> FindIter<'a> {
    #[verifier::external_body]
    pub fn count(self) -> (r: usize)
        ensures r as nat == occ(self.hay@, self.needle@, 0),
    {
        unimplemented!()
    }
}

impl ByteSlice for [u8] {
    #[verifier::external_body]
    fn find_byte(&self, byte: u8) -> (r: Option<usize>)
        ensures
            match r {
                None => forall|i: int| 0 <= i < self@.len() ==> self@[i] != byte,
                Some(k) => k < self@.len() && self@[k as int] == byte
                    && forall|i: int| 0 <= i < k ==> self@[i] != byte,
            },
    {
        unimplemented!()
    }

    #[verifier::external_body]
    fn find_iter<'a>(&'a self, needle: &'a [u8]) -> (r: FindIter<'a>)
        ensures r.hay@ == self@, r.needle@ == needle@,
    {
        unimplemented!()
    }

    // bstr: "Returns this byte string as an ordinary mutable slice" (identity on [u8])
    #[verifier::external_body]
    fn as_bytes_mut(&mut self) -> (r: &mut [u8])
        ensures r@ == old(self)@, final(self)@ == final(r)@,
    {
        unimplemented!()
    }

    #[verifier::external_body]
    fn rfind_byte(&self, byte: u8) -> (r: Option<usize>)
        ensures
            match r {
                None => forall|i: int| 0 <= i < self@.len() ==> self@[i] != byte,
                Some(k) => k < self@.len() && self@[k as int] == byte
                    && forall|i: int| k < i < self@.len() ==> self@[i] != byte,
            },
    {
        unimplemented!()
    }
}

} // mod bstr

// memchr::memchr_iter(needle, haystack).count(): number of occurrences.
pub mod memchr {
    use vstd::prelude::*;
    use crate::*;
    pub struct Memchr<'h> { pub needle: u8, pub hay: &'h [u8] }

    #[verifier::external_body]
    pub fn memchr_iter<'h>(needle: u8, haystack: &'h [u8]) -> (r: Memchr<'h>)
        ensures r.needle == needle, r.hay@ == haystack@,
    {
        unimplemented!()
    }

    // memchr::memchr / memrchr: "Search for the first (last) occurrence of a byte in a slice."
    #[verifier::external_body]
    pub fn memchr(needle: u8, haystack: &[u8]) -> (r: Option<usize>)
        ensures
            match r {
                None => forall|i: int| 0 <= i < haystack@.len() ==> haystack@[i] != needle,
                Some(k) => k < haystack@.len() && haystack@[k as int] == needle
                    && forall|i: int| 0 <= i < k ==> haystack@[i] != needle,
            },
    {
        unimplemented!()
    }

    #[verifier::external_body]
    pub fn memrchr(needle: u8, haystack: &[u8]) -> (r: Option<usize>)
        ensures
            match r {
                None => forall|i: int| 0 <= i < haystack@.len() ==> haystack@[i] != needle,
                Some(k) => k < haystack@.len() && haystack@[k as int] == needle
                    && forall|i: int| k < i < haystack@.len() ==> haystack@[i] != needle,
            },
    {
        unimplemented!()
    }

    impl<'h> Memchr<'h> {
        #[verifier::external_body]
        pub fn count(self) -> (r: usize)
            ensures r as nat == count_terms(self.hay@, self.needle, 0, self.hay@.len() as int),
        {
            unimplemented!()
        }
    }
}
