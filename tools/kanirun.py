"""Kani harness runner.

kani/harnesses.json:
  { "<set>": { "crate": "<dir under kani/>",
               "harnesses": [ { "name", "complete": bool, "bound": str, "tier": "quick"|"thorough",
                                "props": [..], "timeout": sec,
                                "replay": { "layout": [["t","bytes",6],["n","usize"]], "hex_from": "t[..n]" } } ] } }

A *complete* harness (loop-free over the full domain of its inputs, or with unwinding assertions over
a domain that bounds every loop) counts as a discharged obligation; a bounded harness never does.
A failing harness is an obligation that passes on the unchanged tree and fails now => violation; its
counterexample is extracted with --concrete-playback=print and replayed natively against the real
source (cargo test in the same twin crate, which `include!`s / depends on /repo's files).
"""
import json
import os
import re
import shutil
import subprocess
import time
import sys
sys.path.insert(0, os.path.dirname(os.path.abspath(__file__)))

HERE = os.path.dirname(os.path.abspath(__file__))
VERIF = os.path.dirname(HERE)
REPO = os.environ.get('VERIF_REPO', '/repo')
REG = json.load(open(os.path.join(VERIF, 'kani', 'harnesses.json')))
BUILD = os.path.join(VERIF, 'build', 'kani', 'p%d' % os.getpid())
import atexit
atexit.register(lambda: shutil.rmtree(BUILD, ignore_errors=True) if not os.environ.get('VERIF_KEEP_BUILD') else None)
TARGET = os.path.join(VERIF, 'build', 'kani_target')


def _prep(crate):
    """fresh copy of the twin crate (and the shims) under build/ so that nothing is written to kani/"""
    dst = os.path.join(BUILD, crate)
    if os.path.exists(dst):
        shutil.rmtree(dst)
    os.makedirs(BUILD, exist_ok=True)
    shutil.copytree(os.path.join(VERIF, 'kani', crate), dst)
    sh = os.path.join(BUILD, 'shims')
    if os.path.exists(sh):
        shutil.rmtree(sh)
    shutil.copytree(os.path.join(VERIF, 'kani', 'shims'), sh)
    # verbatim copy of a /repo crate's src/ with harness modules appended (registered under "copy_src")
    for reg in REG.values():
        if reg['crate'] == crate and reg.get('copy_src'):
            cs = reg['copy_src']
            srcdst = os.path.join(dst, 'src')
            if os.path.exists(srcdst):
                shutil.rmtree(srcdst)
            shutil.copytree(os.path.join(REPO, cs['from'], 'src'), srcdst)
            for rel, frm in cs.get('add_files', {}).items():
                os.makedirs(os.path.dirname(os.path.join(dst, rel)), exist_ok=True)
                shutil.copy(os.path.join(VERIF, 'kani', crate, frm), os.path.join(dst, rel))
            for rel, text in cs.get('append', {}).items():
                with open(os.path.join(dst, rel), 'a') as f:
                    f.write('\n// ---- appended by tools/kanirun.py (harness access only)\n' + text + '\n')
    # items cut verbatim out of /repo files (registered under "extract" in harnesses.json)
    for reg in REG.values():
        if reg['crate'] == crate:
            for ex in reg.get('extract', []):
                import extract
                extract.REPO = REPO
                txt = extract.cut_items(ex['file'], ex['items'])
                open(os.path.join(dst, ex['to']), 'w').write('// GENERATED from %s -- verbatim items\n' % ex['file'] + txt)
    # path dependencies on /repo are written with the placeholder @REPO@
    for f in ('Cargo.toml', os.path.join('src', 'lib.rs')):
        ct = os.path.join(dst, f)
        if not os.path.exists(ct):
            continue
        s = open(ct).read().replace('@REPO@', REPO)
        open(ct, 'w').write(s)
    return dst


def _env(crate=None):
    e = dict(os.environ)
    e.update(CARGO_NET_OFFLINE='true', CARGO_TARGET_DIR=(TARGET + ('_' + crate if crate else '')), VERIF_REPO=REPO)
    return e


def _limit_memory():
    # CBMC can exhaust the machine on String/Vec-heavy code: cap the address space of the whole tool chain
    import resource
    cap = 24 * 1024 ** 3
    resource.setrlimit(resource.RLIMIT_AS, (cap, cap))


def run_kani(crate_dir, harness, timeout, playback=False, extra=()):
    cmd = ['cargo', 'kani'] + list(extra) + ['--harness', harness]
    if playback:
        cmd += ['-Z', 'concrete-playback', '--concrete-playback=print']
    t0 = time.time()
    try:
        p = subprocess.run(cmd, cwd=crate_dir, env=_env(os.path.basename(crate_dir)), stdout=subprocess.PIPE, stderr=subprocess.STDOUT,
                           text=True, timeout=timeout, preexec_fn=_limit_memory)
        out = p.stdout
    except subprocess.TimeoutExpired as e:
        return 'timeout', (e.stdout or '') if isinstance(e.stdout, str) else '', time.time() - t0, ' '.join(cmd)
    dt = time.time() - t0
    if 'VERIFICATION:- SUCCESSFUL' in out:
        return 'ok', out, dt, ' '.join(cmd)
    if 'VERIFICATION:- FAILED' in out:
        return 'failed', out, dt, ' '.join(cmd)
    return 'error', out, dt, ' '.join(cmd)


def failed_checks(out):
    res = []
    for m in re.finditer(r'Failed Checks: (.*)\n\s*File: "([^"]*)", line (\d+)', out):
        res.append('%s (%s:%s)' % (m.group(1), m.group(2), m.group(3)))
    return res


def playback_bytes(out):
    """concrete values printed by --concrete-playback=print: a list of byte vectors, one per kani::any()"""
    vecs = []
    for m in re.finditer(r'vec!\[([0-9,\s]*)\]', out):
        body = m.group(1).strip()
        vecs.append([int(x) for x in body.split(',') if x.strip()] if body else [])
    return vecs


def replay_native(cex):
    """re-execute a recorded counterexample against the real code: cargo test in the twin crate"""
    d = _prep(cex['crate'])
    env = _env(cex['crate'])
    env.update(cex.get('env', {}))
    cmd = cex.get('cmd') or ['cargo', 'test', '--offline', cex.get('test', 'replay'), '--', '--nocapture']
    p = subprocess.run(cmd, cwd=d, env=env, stdout=subprocess.PIPE, stderr=subprocess.STDOUT, text=True, timeout=900)
    failed = p.returncode != 0
    print(p.stdout[-3000:])
    print('native replay: %s' % ('FAILS against /repo (violation reproduced)' if failed else 'passes'))
    return 0 if failed else 1


def _cex(setname, crate, h, crate_dir):
    rp = h.get('replay')
    if not rp:
        return {'found': False, 'note': 'harness has no replay layout'}
    st, out, dt, cmd = run_kani(crate_dir, h['name'], h.get('timeout', 900), playback=True, extra=h.get('kani_args', ()))
    vecs = playback_bytes(out)
    if not vecs:
        return {'found': False, 'note': 'kani printed no concrete values'}
    vals = {}
    k = 0
    for name, kind, *rest in rp['layout']:
        if kind == 'bytes':
            n = rest[0]
            b = []
            # arrays come as one vector per element or one vector for the whole array
            if k < len(vecs) and len(vecs[k]) == n:
                b = vecs[k]
                k += 1
            else:
                while len(b) < n and k < len(vecs):
                    b += vecs[k]
                    k += 1
            vals[name] = b[:n]
        else:
            width = {'u8': 1, 'bool': 1, 'u16': 2, 'u32': 4, 'u64': 8, 'usize': 8}[kind]
            v = vecs[k] if k < len(vecs) else [0] * width
            k += 1
            vals[name] = int.from_bytes(bytes(v[:width]), 'little')
    env = {}
    for var, expr in rp.get('env', {}).items():
        # expr: "hex:t[..n]" | "int:n"
        kind, e = expr.split(':', 1)
        if kind == 'lit':
            env[var] = e
        elif kind == 'hex':
            m = re.match(r'(\w+)\[\.\.(\w+)\]', e)
            if m:
                data = vals[m.group(1)][:vals[m.group(2)]]
            else:
                data = vals[e]
            env[var] = bytes(data).hex()
        else:
            env[var] = str(vals[e])
    cex = {'found': True, 'crate': crate, 'harness': h['name'], 'values': vals, 'env': env,
           'test': rp.get('test', 'replay'), 'kani_cmd': cmd}
    if rp.get('cmd'):
        cex['cmd'] = rp['cmd']
    # confirm natively
    d = _prep(crate)
    e2 = _env(crate)
    e2.update(env)
    p = subprocess.run(cex.get('cmd') or ['cargo', 'test', '--offline', cex['test']], cwd=d, env=e2, stdout=subprocess.PIPE,
                       stderr=subprocess.STDOUT, text=True, timeout=900)
    cex['native_replay_fails'] = p.returncode != 0
    cex['native_output'] = p.stdout[-1500:]
    if not cex['native_replay_fails']:
        cex['found'] = False
        cex['note'] = 'kani counterexample did not reproduce natively'
    return cex


def run_native(crate, h):
    """bounded native enumeration compiled against the real code: exit status != 0 and a line
    `VERIF_REPLAY_K=V ...` naming the first failing case"""
    d = _prep(crate)
    env = _env(crate)
    env.update({k: v.replace('@VERIF@', VERIF) for k, v in h.get('env', {}).items()})
    t0 = time.time()
    try:
        p = subprocess.run(h['cmd'], cwd=d, env=env, stdout=subprocess.PIPE, stderr=subprocess.STDOUT, text=True,
                           timeout=h.get('timeout', 900))
    except subprocess.TimeoutExpired:
        return 'timeout', '', time.time() - t0, None
    dt = time.time() - t0
    if 'could not compile' in p.stdout or 'error[' in p.stdout:
        return 'error', p.stdout[-800:], dt, None
    if p.returncode == 0:
        return 'ok', p.stdout[-400:], dt, None
    envline = [l for l in p.stdout.split('\n') if l.startswith('VERIF_REPLAY_')]
    cex = {'found': bool(envline), 'crate': crate, 'harness': h['name'], 'native_replay_fails': True,
           'env': dict(kv.split('=', 1) for kv in envline[0].split()) if envline else {},
           'cmd': [c for c in h['cmd']], 'native_output': '\n'.join(l for l in p.stdout.split('\n') if 'FAILING CASE' in l or l.startswith('VERIF_REPLAY_'))[-1500:]}
    return 'failed', p.stdout[-800:], dt, cex


def run_harness_set(spec, tier='quick', known=()):
    setname = spec['set'] if isinstance(spec, dict) else spec
    reg = REG[setname]
    crate = reg['crate']
    res = {'unit': 'kani/' + setname, 'status': 'ok', 'harnesses': [], 'failures': [],
           'trusted': reg.get('trusted', []), 'cmd': ''}
    d = _prep(crate)
    for h in reg['harnesses']:
        if h.get('tier') == 'manual' or (tier == 'quick' and h.get('tier', 'thorough') != 'quick'):
            continue
        ncex = None
        if h.get('kind') == 'native':
            st, out, dt, ncex = run_native(crate, h)
            cmd = ' '.join(h['cmd'])
        else:
            st, out, dt, cmd = run_kani(d, h['name'], h.get('timeout', 900), extra=h.get('kani_args', ()))
        res['cmd'] = cmd
        rec = {'name': '%s/%s' % (setname, h['name']), 'complete': bool(h.get('complete')),
               'bound': h.get('bound'), 'ok': st == 'ok', 'time_s': round(dt, 1), 'status': st,
               'props': h.get('props', [])}
        res['harnesses'].append(rec)
        if st == 'failed':
            obl = 'kani/%s/%s' % (setname, h['name'])
            if any(re.search(k, obl) for k in known):
                cex = {'found': False, 'note': 'listed known finding: counterexample extraction skipped'}
            elif ncex is not None:
                cex = ncex
            else:
                cex = _cex(setname, crate, h, d)
            res['failures'].append({
                'obligation': 'kani/%s/%s' % (setname, h['name']), 'function': h.get('function', h['name']),
                'kind': 'kani-assertion', 'props': h.get('props', []),
                'message': '; '.join(failed_checks(out)[:5]), 'rendered': '\n'.join(
                    l for l in out.split('\n') if 'Failed Checks' in l or 'File:' in l or 'VERIFICATION' in l)[:3000],
                'where': [], 'counterexample': cex})
        elif st in ('timeout', 'error'):
            res['status'] = 'undecided'
            res['reason'] = 'kani %s on %s: %s' % (st, h['name'], out[-400:] if st == 'error' else '')
    return res


def counterexample_for(failure):
    """find a Kani twin registered for the function of a failed Verus obligation and search for a
    concrete failing input within its bound"""
    if failure.get('counterexample'):
        return failure['counterexample']
    fn = failure.get('function') or ''
    notes = []
    for setname, reg in REG.items():
        for h in reg['harnesses']:
            if fn and fn in h.get('twin_of', []) and h.get('kind') == 'native':
                st, out, dt, ncex = run_native(reg['crate'], h)
                if st == 'failed' and ncex and ncex.get('found'):
                    return ncex
                notes.append('native twin %s/%s: %s within bound (%s)' % (setname, h['name'], st, h.get('bound')))
                continue
            if fn and fn in h.get('twin_of', []):
                d = _prep(reg['crate'])
                st, out, dt, cmd = run_kani(d, h['name'], h.get('timeout', 600), extra=h.get('kani_args', ()))
                if st == 'failed':
                    c = _cex(setname, reg['crate'], h, d)
                    if c.get('found'):
                        return c
                    notes.append('%s/%s failed but: %s' % (setname, h['name'], c.get('note')))
                else:
                    notes.append('kani twin %s/%s: %s within bound (%s)' % (setname, h['name'], st, h.get('bound')))
    if notes:
        return {'found': False, 'note': '; '.join(notes)}
    return {'found': False, 'note': 'no Kani twin registered for %s' % fn}
