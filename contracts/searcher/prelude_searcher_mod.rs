// `use` declarations of crates/searcher/src/searcher/mod.rs that the extracted items need
use std::cmp;
use crate::grep_matcher::{LineTerminator, Match, Matcher};
use crate::line_buffer;
