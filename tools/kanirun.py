"""Kani harness runner (complete loop-free proofs, bounded twins, counterexample search)."""
TWINS = {}


def counterexample_for(failure):
    return {'found': False, 'note': 'no Kani twin registered for %s' % failure.get('function')}


def run_harness_set(spec):
    return {'status': 'ok', 'harnesses': [], 'failures': [], 'trusted': []}
