// ===== TRUSTED (T-Sink): the grep_searcher::Sink trait as a contract =====
// Ghost state: `log` (every call appends exactly one event carrying the views of its
// arguments) and `st` (begun / refused / errored / finished).
// PRECONDITIONS = the protocol of property C16 (from the property statement and sink.rs docs):
// nothing is delivered after a refusal (Ok(false)), after an error, or after finish; finish is
// called at most once and never after an error.  Because they sit on the trait declaration they
// are proof obligations at EVERY call site in core.rs / glue.rs.
use crate::grep_matcher::LineTerminator;
use crate::searcher::Searcher;

pub enum Ev {
    Begin,
    Matched { off: u64, bytes: Seq<u8>, ln: Option<u64>, lt: LineTerminator, buf: Seq<u8>, rs: int, re: int },
    Ctx { kind: SinkContextKind, off: u64, bytes: Seq<u8>, ln: Option<u64> },
    Break,
    Binary { off: u64 },
    Finish { byte_count: u64, binary: Option<u64> },
}

pub struct SinkSt { pub begun: bool, pub refused: bool, pub errored: bool, pub finished: bool }

pub open spec fn sink_active(st: SinkSt) -> bool {
    st.begun && !st.refused && !st.errored && !st.finished
}

pub open spec fn st_after<E>(st: SinkSt, r: Result<bool, E>) -> SinkSt {
    SinkSt { begun: st.begun, refused: r matches Ok(false), errored: r is Err, finished: st.finished }
}

pub(crate) open spec fn ev_of_match(m: &SinkMatch<'_>) -> Ev {
    Ev::Matched {
        off: m.absolute_byte_offset, bytes: m.bytes@, ln: m.line_number, lt: m.line_term,
        buf: m.buffer@, rs: m.bytes_range_in_buffer.start as int, re: m.bytes_range_in_buffer.end as int,
    }
}

pub(crate) open spec fn ev_of_ctx(c: &SinkContext<'_>) -> Ev {
    Ev::Ctx { kind: c.kind, off: c.absolute_byte_offset, bytes: c.bytes@, ln: c.line_number }
}

pub trait SinkError: Sized {
    fn error_message<T: std::fmt::Display>(message: T) -> Self;
    fn error_io(err: std::io::Error) -> Self;
}

pub(crate) trait Sink {
    type Error: SinkError;

    spec fn log(&self) -> Seq<Ev>;
    spec fn st(&self) -> SinkSt;

    fn matched(&mut self, _searcher: &Searcher, _mat: &SinkMatch<'_>) -> (r: Result<bool, Self::Error>)
        requires sink_active(old(self).st()),
        ensures
            final(self).log() == old(self).log().push(ev_of_match(_mat)),
            final(self).st() == st_after(old(self).st(), r),
    ;

    fn context(&mut self, _searcher: &Searcher, _context: &SinkContext<'_>) -> (r: Result<bool, Self::Error>)
        requires sink_active(old(self).st()),
        ensures
            final(self).log() == old(self).log().push(ev_of_ctx(_context)),
            final(self).st() == st_after(old(self).st(), r),
    ;

    fn context_break(&mut self, _searcher: &Searcher) -> (r: Result<bool, Self::Error>)
        requires sink_active(old(self).st()),
        ensures
            final(self).log() == old(self).log().push(Ev::Break),
            final(self).st() == st_after(old(self).st(), r),
    ;

    fn binary_data(&mut self, _searcher: &Searcher, _binary_byte_offset: u64) -> (r: Result<bool, Self::Error>)
        requires sink_active(old(self).st()),
        ensures
            final(self).log() == old(self).log().push(Ev::Binary { off: _binary_byte_offset }),
            final(self).st() == st_after(old(self).st(), r),
    ;

    fn begin(&mut self, _searcher: &Searcher) -> (r: Result<bool, Self::Error>)
        requires
            !old(self).st().begun, !old(self).st().refused, !old(self).st().errored, !old(self).st().finished,
        ensures
            final(self).log() == old(self).log().push(Ev::Begin),
            final(self).st() == (SinkSt { begun: true, refused: r matches Ok(false), errored: r is Err, finished: false }),
    ;

    /// completion is signalled at most once, only after begin, never after an error
    fn finish(&mut self, _searcher: &Searcher, _fin: &SinkFinish) -> (r: Result<(), Self::Error>)
        requires old(self).st().begun, !old(self).st().errored, !old(self).st().finished,
        ensures
            final(self).log() == old(self).log().push(
                Ev::Finish { byte_count: _fin.byte_count, binary: _fin.binary_byte_offset }),
            final(self).st() == (SinkSt { begun: true, refused: old(self).st().refused, errored: r is Err, finished: r is Ok }),
    ;
}
