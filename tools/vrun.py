"""Run one contract unit through Verus and turn the output into obligations.

result = run_unit(unit_dir) ->
  {
    'unit', 'status': 'ok'|'failed'|'undecided',
    'reason' (when undecided), 'functions': [{name, mode, success, time_us, rlimit}],
    'failures': [{'obligation', 'function', 'kind', 'message', 'props', 'where', 'rendered'}],
    'probes': {'expected', 'rejected', 'missing': [...]},
    'trusted': [...], 'dropped': [...], 'items': [...], 'erasure_ok', 'wall_s', 'cmd'
  }
"""
import json
import os
import re
import subprocess
import sys
import time

sys.path.insert(0, os.path.dirname(os.path.abspath(__file__)))
import extract  # noqa: E402

VERIF = os.path.dirname(os.path.dirname(os.path.abspath(__file__)))
BUILD = os.path.join(VERIF, 'build')

PROOF_FAIL = [
    ('postcondition', re.compile(r'postcondition not satisfied|unable to prove post-condition of closure')),
    ('precondition', re.compile(r'precondition not satisfied|unable to prove pre-condition of closure')),
    ('invariant', re.compile(r'invariant not satisfied')),
    ('assertion', re.compile(r'assertion failed|assertion failure')),
    ('overflow', re.compile(r'possible arithmetic (underflow|overflow)|possible division by zero|'
                            r'possible bit shift|underflow/overflow')),
    ('termination', re.compile(r'decreases not satisfied|could not prove termination')),
    ('index', re.compile(r'index out of bounds|possible .* out of bounds')),
    ('unwrap', re.compile(r'cannot show|unreachable|panic')),
    ('recommends', re.compile(r'recommendation not met')),
]
UNDECIDED = re.compile(r'[Rr]esource limit|rlimit|timed? ?out|solver.*(crash|unknown)|z3.*error', re.I)

TRUSTED_RX = [
    ('external_body', re.compile(r'#\[verifier::external_body\]')),
    ('assume_specification', re.compile(r'\bassume_specification\b')),
    ('assume', re.compile(r'\bassume\s*\(')),
    ('admit', re.compile(r'\badmit\s*\(')),
    ('external', re.compile(r'#\[verifier::external(_fn_specification|_type_specification|_trait_specification)?\]')),
    ('eq-axiom', re.compile(r'impl\s+vstd::std_specs::cmp::PartialEqSpecImpl\s+for\s+[^\{]+')),
    ('uninterp', re.compile(r'\buninterp\s+spec\s+fn\s+\w+')),
    ('trait-contract', re.compile(r'^\s*pub(\(crate\))?\s+trait\s+\w+')),
    ('axiom', re.compile(r'\baxiom\s+fn\s+\w+|broadcast\s+axiom\s+fn\s+\w+')),
]


def scan_trusted(text):
    """Mechanical scan of the assembled file for every construct that is an
    assumption.  Returns a sorted list of 'kind: name'."""
    out = []
    lines = text.split('\n')
    for i, l in enumerate(lines):
        code = l.split('//')[0]
        for kind, rx in TRUSTED_RX:
            m = rx.search(code)
            if not m:
                continue
            name = None
            if kind in ('external_body', 'external'):
                # name of the next fn/struct
                for j in range(i, min(i + 12, len(lines))):
                    m2 = re.search(r'\b(fn|struct|enum|trait|impl)\s+([A-Za-z_][A-Za-z0-9_:<>\', \[\]&]*)', lines[j].split('//')[0])
                    if m2 and not lines[j].lstrip().startswith('#['):
                        name = m2.group(1) + ' ' + m2.group(2).strip()
                        # qualify methods with the enclosing impl
                        if m2.group(1) == 'fn':
                            for k in range(j, -1, -1):
                                m3 = re.match(r'(pub\s+)?(impl\b[^{]*|trait\s+\w+[^{]*)\{', lines[k])
                                if m3 and not lines[k].startswith(' '):
                                    name = extract.rustlex.norm(m3.group(2)) + ' :: ' + name
                                    break
                                if re.match(r'^\}', lines[k]) and k < j:
                                    break
                        break
            elif kind == 'assume_specification':
                m2 = re.search(r'\[\s*([^\]]+?)\s*\]', code)
                name = m2.group(1) if m2 else '?'
            elif kind in ('assume', 'admit'):
                # keyed by its text and its ordinal among identical texts, NOT by line number: a harmless edit
                # elsewhere in the file must not turn a listed assumption into a "new" one
                txt = code.strip()[:80]
                nth = sum(1 for o in out if o.startswith('%s: ' % kind) and o.endswith(txt))
                name = '#%d %s' % (nth + 1, txt)
            else:
                name = extract.rustlex.norm(m.group(0))
            out.append('%s: %s' % (kind, name))
    return sorted(set(out))


def _origin_at(linemap, line, col):
    if line - 1 >= len(linemap):
        return ('gen',)
    segs = linemap[line - 1]
    best = ('gen',)
    for c, o in segs:
        if c <= col - 1:
            best = o
    if best == ('gen',) and segs:
        best = segs[0][1]
    return best


def _fmt_origin(o, srcs):
    if o[0] == 'repo':
        sf = extract.source(o[1])
        return '%s:%d' % (o[1], sf.line_of(o[2]))
    if o[0] in ('ov', 'file'):
        return '%s:%d' % (os.path.relpath(o[1], VERIF), o[2])
    return 'generated'


def run_verus(path, rlimit=None, extra=None, timeout=1800, rustc=None):
    cmd = ['verus', path, '--triggers-mode', 'silent', '--output-json', '--time-expanded',
           '--multiple-errors', '5', '--num-threads', '8']
    if rlimit:
        cmd += ['--rlimit', str(rlimit)]
    if extra:
        cmd += extra
    cmd += ['--', '--error-format=json'] + list(rustc or [])
    env = dict(os.environ)
    t0 = time.time()
    try:
        p = subprocess.run(cmd, stdout=subprocess.PIPE, stderr=subprocess.PIPE, timeout=timeout,
                           cwd=os.path.dirname(path), env=env, text=True)
    except subprocess.TimeoutExpired:
        return None, [], time.time() - t0, ' '.join(cmd), 'timeout'
    wall = time.time() - t0
    try:
        js = json.loads(p.stdout)
    except Exception:
        js = None
    diags = []
    for l in p.stderr.split('\n'):
        if l.startswith('{'):
            try:
                diags.append(json.loads(l))
            except Exception:
                pass
    return js, diags, wall, ' '.join(cmd), p.stderr if js is None else ''


def classify(diag):
    msg = diag.get('message', '')
    if diag.get('level') != 'error':
        return None, None
    if msg.startswith('aborting due to'):
        return None, None
    for kind, rx in PROOF_FAIL:
        if rx.search(msg):
            return 'fail', kind
    if UNDECIDED.search(msg):
        return 'undecided', 'rlimit'
    return 'unsupported', 'compile'


def functions_of(js, crate):
    crate = crate.split('.')[0] if False else crate
    out = []
    if not js:
        return out
    for mod in js.get('times-ms', {}).get('smt', {}).get('smt-run-module-times', []):
        for f in mod.get('function-breakdown', []):
            name = f['function']
            if name.startswith(crate + '::'):
                name = name[len(crate) + 2:]
            out.append({'name': name, 'mode': f.get('mode:', f.get('mode')),
                        'success': f['success'], 'time_us': f['time-micros'],
                        'rlimit': f['rlimit']})
    return out


def item_for_line(items, line):
    for it in items:
        if it['out_line_start'] <= line < it['out_line_end']:
            return it
    return None


def fn_display(it):
    sel = it['selector']
    m = re.match(r'impl (.*?) :: fn (\w+)', sel)
    if m:
        return '%s::%s' % (m.group(1), m.group(2))
    m = re.match(r'fn (\w+)', sel)
    if m:
        return m.group(1)
    return sel


def run_unit(unit_dir, rlimit=100, probes=True, keep=True):
    unit = os.path.basename(os.path.normpath(unit_dir))
    out_dir = os.path.join(BUILD, 'verus', '%s.%d' % (unit, os.getpid()))
    os.makedirs(out_dir, exist_ok=True)
    res = {'unit': unit, 'status': 'ok', 'failures': [], 'functions': [], 'probes': None,
           'trusted': [], 'dropped': [], 'items': [], 'erasure_ok': None, 'wall_s': 0.0,
           'cmd': '', 'solver_ms': 0}
    t00 = time.time()
    path = os.path.join(out_dir, unit + '.rs')
    soft = set()
    asm = None
    for _attempt in range(6):
        try:
            asm, cfg = extract.assemble(unit_dir, path, soft=soft)
            break
        except extract.LostAnchor as e:
            if e.selector and (e.file, e.selector) not in soft and re.search(r'\bfn \w+$', e.selector):
                soft.add((e.file, e.selector))
                res.setdefault('lost_anchor_msgs', []).append(str(e))
                continue
            res.update(status='undecided', reason='lost-anchor: %s' % e)
            return res
        except (extract.Unsupported, ValueError) as e:
            res.update(status='undecided', reason='unsupported: %s' % e)
            return res
    if asm is None:
        res.update(status='undecided', reason='lost-anchor: too many functions with lost anchors')
        return res
    res['hints_lost'] = sorted(fn_display({'selector': sel}) for (_f, sel) in soft)
    res['items'] = asm.items
    res['dropped'] = ['%s %s: %s x%d' % d for d in asm.dropped]
    res['erasure_ok'] = asm.erasure_ok
    if not asm.erasure_ok:
        res.update(status='undecided', reason='erasure-check failed (extractor bug)')
        return res
    text = asm.text()
    res['trusted'] = scan_trusted(text) + ['assumed-item: ' + a for a in asm.assumed_items]
    allow_path = os.path.join(unit_dir, 'trusted.allow')
    allow = set()
    if os.path.exists(allow_path):
        allow = set(l.rstrip('\n') for l in open(allow_path) if l.strip())
    new = [t for t in res['trusted'] if t not in allow]
    res['trusted_new'] = new
    linemap = asm.linemap()
    js, diags, wall, cmd, err = run_verus(path, rlimit, rustc=cfg.get('rustc_args'))
    res['cmd'] = cmd
    res['wall_s'] = wall
    if js is None:
        res.update(status='undecided', reason='verus produced no result (%s)' % (err or '')[:400])
        return res
    res['functions'] = functions_of(js, unit)
    res['solver_ms'] = js.get('times-ms', {}).get('smt', {}).get('total', 0)
    vr = js.get('verification-results', {})
    res['verified'] = vr.get('verified', 0)
    res['errors'] = vr.get('errors', 0)
    undecided = []
    for d in diags:
        cls, kind = classify(d)
        if cls is None:
            continue
        spans = d.get('spans', [])
        prim = [s for s in spans if s.get('is_primary')] or spans
        where = []
        tags = None
        label = None
        item = None
        for s in spans:
            o = _origin_at(linemap, s['line_start'], s['column_start'])
            where.append({'at': _fmt_origin(o, None), 'label': s.get('label'),
                          'primary': bool(s.get('is_primary')), 'out_line': s['line_start']})
            if o[0] == 'ov' and len(o) > 3:
                # explicit clause tags / label on one of the lines of the failing clause?
                try:
                    alll = open(o[1]).read().split('\n')
                    span = alll[o[2] - 1:o[2] + (s['line_end'] - s['line_start'])]
                except Exception:
                    span = []
                for ltxt in span:
                    ct = extract.clause_tags(ltxt, None)
                    if ct and tags is None:
                        tags = ct
                    if label is None:
                        label = extract.clause_label(ltxt)
            it = item_for_line(asm.items, s['line_start'])
            if it is not None and (item is None or s.get('is_primary')):
                # the function *being verified* is the one containing a span that
                # maps to an exit / call site; prefer spans with origin repo
                if item is None or o[0] == 'repo':
                    item = it
        # Verus puts the function under verification's body span somewhere;
        # for precondition failures the primary span is the call site.
        if cls == 'fail' and kind == 'precondition':
            for s in spans:
                if s.get('is_primary'):
                    it = item_for_line(asm.items, s['line_start'])
                    if it is not None:
                        item = it
        if cls == 'fail' and kind == 'postcondition':
            # secondary span "at this exit"/"at the end of the function body" is inside the function
            for s in spans:
                if not s.get('is_primary'):
                    it = item_for_line(asm.items, s['line_start'])
                    if it is not None:
                        item = it
        rec = {'kind': kind, 'message': d.get('message'), 'where': where,
               'rendered': d.get('rendered', '')[:3000]}
        if cls == 'fail':
            fname = fn_display(item) if item else 'spec-or-prelude'
            props = tags or (item['props'] if item else [])
            locs = [w['at'] for w in where if w['primary']] or [w['at'] for w in where]
            rec['hints_lost'] = bool(item and (item['file'], item['selector']) in soft)
            rec.update(function=fname, props=props,
                       obligation=('%s/%s/%s#%s' % (unit, fname, kind, label)) if label else
                                  ('%s/%s/%s@%s' % (unit, fname, kind, locs[0] if locs else '?')),
                       assumed_item=bool(item and item.get('assumed')))
            res['failures'].append(rec)
        elif cls == 'undecided':
            undecided.append(rec)
        else:
            res.update(status='undecided', reason='unsupported: ' + d.get('message', '')[:300])
            res['unsupported_detail'] = rec
            if item is not None:
                res['unsupported_fn'] = fn_display(item)
                res['reason'] += ' [in %s]' % fn_display(item)
            return res
    if res['failures']:
        res['status'] = 'failed'
    elif undecided:
        res.update(status='undecided', reason='rlimit: ' + undecided[0]['message'][:200])
    elif vr.get('errors', 0) or not vr.get('success', False):
        res.update(status='undecided', reason='verus reported errors that were not classified')
    if new and res['status'] == 'ok':
        res.update(status='undecided', reason='new trusted items not in trusted.allow: %s' % new)
    # baseline: every function verified on the unchanged tree must still be there
    base_path = os.path.join(unit_dir, 'baseline.json')
    if os.path.exists(base_path) and res['status'] == 'ok':
        base = json.load(open(base_path))
        have = set(f['name'] for f in res['functions'] if f['success'])
        missing = [f for f in base.get('functions', []) if f not in have]
        if missing:
            res.update(status='undecided', reason='lost-anchor: functions in baseline no longer verified/present: %s' % missing[:5])
    # ---- vacuity probes
    if probes and res['status'] in ('ok', 'failed'):
        ppath = os.path.join(out_dir, unit + '_probe.rs')
        pasm, _ = extract.assemble(unit_dir, ppath, probe=True, soft=soft)
        pl = pasm.linemap()
        pjs, pdiags, pwall, pcmd, perr = run_verus(ppath, rlimit, rustc=cfg.get('rustc_args'))
        res['wall_s'] += pwall
        expected = set()
        for sg in pasm.segs:
            if sg.origin[0] == 'ov' and len(sg.origin) > 3 and sg.origin[3] and \
                    str(sg.origin[3][0]).startswith('PROBE:'):
                expected.add(sg.origin[3][0])
        rejected = set()
        for d in pdiags:
            cls, kind = classify(d)
            if cls == 'fail' and kind == 'assertion':
                for s in d.get('spans', []):
                    o = _origin_at(pl, s['line_start'], s['column_start'])
                    if o[0] == 'ov' and len(o) > 3 and o[3] and str(o[3][0]).startswith('PROBE:'):
                        rejected.add(o[3][0])
        # loop probes shadowed by the body probe of the same function: second pass with loop probes only
        if any(not e.endswith('#0') for e in expected - rejected):
            lpath = os.path.join(out_dir, unit + '_probe_loops.rs')
            lasm, _ = extract.assemble(unit_dir, lpath, probe='loops', soft=soft)
            ll = lasm.linemap()
            ljs, ldiags, lwall, lcmd, lerr = run_verus(lpath, rlimit, rustc=cfg.get('rustc_args'))
            res['wall_s'] += lwall
            for d in ldiags:
                cls, kind = classify(d)
                if cls == 'fail' and kind == 'assertion':
                    for s in d.get('spans', []):
                        o = _origin_at(ll, s['line_start'], s['column_start'])
                        if o[0] == 'ov' and len(o) > 3 and o[3] and str(o[3][0]).startswith('PROBE:'):
                            rejected.add(o[3][0])
        missing = sorted(e for e in expected - rejected if e.endswith('#0'))
        res['probes'] = {'expected': len(expected), 'rejected': len(rejected),
                         'missing_body': missing,
                         'missing_loop': sorted(e for e in expected - rejected if not e.endswith('#0'))}
        missing_loop = sorted(e for e in expected - rejected if not e.endswith('#0'))
        if (missing or missing_loop) and res['status'] == 'ok':
            missing = missing + missing_loop
            res.update(status='undecided', reason='vacuity probe verified (contradictory precondition?): %s' % missing[:5])
    res['total_wall_s'] = time.time() - t00
    if not os.environ.get('VERIF_KEEP_BUILD'):
        import shutil
        shutil.rmtree(out_dir, ignore_errors=True)
    return res


def accept(unit_dir):
    """Record the trusted list and the verified-function baseline of the
    unchanged tree (run by hand, result committed; never run by a check)."""
    allow_path = os.path.join(unit_dir, 'trusted.allow')
    if os.path.exists(allow_path):
        os.remove(allow_path)
    bp = os.path.join(unit_dir, 'baseline.json')
    if os.path.exists(bp):
        os.remove(bp)
    r = run_unit(unit_dir, probes=False)
    with open(allow_path, 'w') as f:
        for t in r['trusted']:
            f.write(t + '\n')
    if r['status'] == 'undecided' and r.get('reason', '').startswith('new trusted'):
        r = run_unit(unit_dir, probes=False)
    known = []
    kp = os.path.join(VERIF, 'known_findings.txt')
    if os.path.exists(kp):
        for l in open(kp):
            m = re.match(r'known:\s+property=(\S+)\s+obligation=(\S+)\s+what=', l.strip())
            if m:
                known.append(m.group(2))
    unlisted = [f for f in r['failures'] if not any(re.search(k, f['obligation']) for k in known)]
    if r['status'] == 'failed' and not unlisted:
        print('accepting with %d known finding(s)' % len(set(f['obligation'] for f in r['failures'])))
    elif r['status'] != 'ok':
        print('NOT ACCEPTED: %s %s' % (r['status'], r.get('reason')))
        for f in r['failures']:
            print(f['obligation'])
        return 1
    json.dump({'functions': sorted(f['name'] for f in r['functions'] if f['success'])},
              open(bp, 'w'), indent=1)
    print('accepted %s: %d functions, %d trusted items' % (unit_dir, len(r['functions']), len(r['trusted'])))
    return 0


if __name__ == '__main__':
    if '--accept' in sys.argv:
        sys.exit(accept(sys.argv[1]))
    r = run_unit(sys.argv[1], probes='--no-probes' not in sys.argv)
    slim = dict(r)
    slim['items'] = len(r['items'])
    for f in slim['failures']:
        f.pop('rendered', None)
    print(json.dumps(slim, indent=1))
