//! C13, bounded NATIVE enumeration (not Kani, not a proof): the real multi-line strategy of grep-searcher
//! (path dependency on /repo) with the real grep-regex matcher built as `rg -U` builds it, against the
//! property's own statement: the lines reported are exactly the lines overlapped by the successive
//! leftmost non-overlapping matches enumerated with Matcher::find_at over the WHOLE input (one byte further
//! after an empty match); touching line ranges are one delivery; -v reports exactly the other lines, one
//! by one; context lines, separators, numbers and offsets as in the grep model (C03); finish(len).
use grep_matcher::Matcher;
use grep_regex::RegexMatcherBuilder;
use grep_searcher::{Searcher, SearcherBuilder, Sink, SinkContext, SinkContextKind, SinkFinish, SinkMatch};

const PATTERNS: &[&str] = &["a\nb", "a\n", "\na", "^a", "a$", "a|\n\n", "(?s:a.b)", r"\bb", "b*", "^", "$", "a\n|^", r"\Ab|b\n\z", "a\nb|b\na", r"\n+", "^|a\nb", r"\b|a\nb", "$|b\na", r"\b|a\n-", r"-\n\b", r"a|\z"];
const ALPHA: &[u8] = b"ab\n-";

#[derive(Clone, PartialEq, Eq, Debug)]
struct Ev { kind: u8, off: u64, len: usize, ln: u64 } // 1 match, 2 before, 3 after, 4 other, 5 break, 6 finish

struct Rec<'a> { input: &'a [u8], evs: Vec<Ev>, bad_bytes: bool, finished: usize, refuse_at: usize, stopped: bool, after_stop: usize }
impl<'a> Rec<'a> {
    fn new(input: &'a [u8], refuse_at: usize) -> Rec<'a> { Rec { input, evs: vec![], bad_bytes: false, finished: 0, refuse_at, stopped: false, after_stop: 0 } }
    /// record one delivery; answers `false` (stop) at the chosen event, and counts anything delivered later
    fn push(&mut self, e: Ev) -> bool {
        if self.stopped { self.after_stop += 1; }
        self.evs.push(e);
        if self.evs.len() - 1 == self.refuse_at { self.stopped = true; return false; }
        true
    }
    fn bytes(&mut self, off: u64, b: &[u8]) {
        let o = off as usize;
        if o + b.len() > self.input.len() || &self.input[o..o + b.len()] != b { self.bad_bytes = true; }
    }
}
impl<'a> Sink for Rec<'a> {
    type Error = std::io::Error;
    fn matched(&mut self, _s: &Searcher, m: &SinkMatch<'_>) -> Result<bool, std::io::Error> {
        self.bytes(m.absolute_byte_offset(), m.bytes());
        Ok(self.push(Ev { kind: 1, off: m.absolute_byte_offset(), len: m.bytes().len(), ln: m.line_number().unwrap_or(0) }))
    }
    fn context(&mut self, _s: &Searcher, c: &SinkContext<'_>) -> Result<bool, std::io::Error> {
        self.bytes(c.absolute_byte_offset(), c.bytes());
        let k = match c.kind() { SinkContextKind::Before => 2, SinkContextKind::After => 3, SinkContextKind::Other => 4 };
        Ok(self.push(Ev { kind: k, off: c.absolute_byte_offset(), len: c.bytes().len(), ln: c.line_number().unwrap_or(0) }))
    }
    fn context_break(&mut self, _s: &Searcher) -> Result<bool, std::io::Error> {
        Ok(self.push(Ev { kind: 5, off: 0, len: 0, ln: 0 }))
    }
    fn finish(&mut self, _s: &Searcher, f: &SinkFinish) -> Result<(), std::io::Error> {
        self.finished += 1;
        if self.stopped { return Ok(()); } // the count reported after a requested stop is not compared
        self.evs.push(Ev { kind: 6, off: f.byte_count(), len: 0, ln: 0 });
        Ok(())
    }
}

fn lines_of(input: &[u8]) -> Vec<(usize, usize)> {
    let mut v = vec![];
    let mut s = 0;
    while s < input.len() {
        let e = input[s..].iter().position(|&b| b == b'\n').map(|i| s + i + 1).unwrap_or(input.len());
        v.push((s, e));
        s = e;
    }
    v
}

/// which lines are overlapped by the successive leftmost non-overlapping matches over the whole input.
/// `resume_after_line`: the rule of the listed known finding (inverted search resumes after the LAST LINE of
/// a match instead of after the match); used only to delimit that finding's class of inputs.
fn overlapped<M: Matcher>(m: &M, input: &[u8], lines: &[(usize, usize)], resume_after_line: bool) -> Vec<bool> {
    let mut sel = vec![false; lines.len()];
    let mut pos = 0;
    while pos <= input.len() {
        let mt = match m.find_at(input, pos).ok().flatten() { Some(x) => x, None => break };
        let (s, e) = (mt.start(), mt.end());
        let mut last_line_end = e;
        for (i, &(ls, le)) in lines.iter().enumerate() {
            // line i is overlapped by [s, e): shares a byte with it, or contains the empty match position
            let hit = if s < e { ls < e && s < le } else { ls <= s && (s < le || (s == le && le == input.len() && input[le - 1] != b'\n')) };
            if hit { sel[i] = true; last_line_end = last_line_end.max(le); }
        }
        let step = if s == e { e + 1 } else { e };
        pos = if resume_after_line { last_line_end.max(step) } else { step };
    }
    sel
}

fn expected(input: &[u8], lines: &[(usize, usize)], sel_in: &[bool], invert: bool, after: usize, before: usize, passthru: bool) -> Vec<Ev> {
    let n = lines.len();
    let sel: Vec<bool> = sel_in.iter().map(|&b| b != invert).collect();
    let mut out: Vec<Ev> = vec![];
    let mut last: Option<usize> = None;
    let mut i = 0;
    while i < n {
        let is_before = !sel[i] && (1..=before).any(|d| i + d < n && sel[i + d]);
        let is_after = !sel[i] && (1..=after).any(|d| i >= d && sel[i - d]);
        if !(sel[i] || is_before || is_after || passthru) { i += 1; continue; }
        if let Some(p) = last { if p + 1 != i && (after > 0 || before > 0) { out.push(Ev { kind: 5, off: 0, len: 0, ln: 0 }); } }
        if sel[i] && !invert {
            // touching line ranges of matches are ONE delivery
            let mut j = i;
            while j + 1 < n && sel[j + 1] { j += 1; }
            out.push(Ev { kind: 1, off: lines[i].0 as u64, len: lines[j].1 - lines[i].0, ln: i as u64 + 1 });
            last = Some(j);
            i = j + 1;
        } else {
            let kind = if sel[i] { 1 } else if is_after { 3 } else if is_before { 2 } else { 4 };
            out.push(Ev { kind, off: lines[i].0 as u64, len: lines[i].1 - lines[i].0, ln: i as u64 + 1 });
            last = Some(i);
            i += 1;
        }
    }
    out.push(Ev { kind: 6, off: input.len() as u64, len: 0, ln: 0 });
    out
}

struct Chunked<'a> { data: &'a [u8], pos: usize, chunk: usize }
impl<'a> std::io::Read for Chunked<'a> {
    fn read(&mut self, buf: &mut [u8]) -> std::io::Result<usize> {
        let n = self.chunk.min(buf.len()).min(self.data.len() - self.pos);
        buf[..n].copy_from_slice(&self.data[self.pos..self.pos + n]);
        self.pos += n;
        Ok(n)
    }
}

fn run(m: &grep_regex::RegexMatcher, input: &[u8], invert: bool, after: usize, before: usize, passthru: bool, strat: usize, refuse_at: usize) -> Result<(Vec<Ev>, bool, usize, usize), String> {
    run_cfg(m, input, invert, after, before, passthru, strat, refuse_at, true, true)
}

fn run_cfg(m: &grep_regex::RegexMatcher, input: &[u8], invert: bool, after: usize, before: usize, passthru: bool, strat: usize, refuse_at: usize, bom_sniffing: bool, multi_line: bool) -> Result<(Vec<Ev>, bool, usize, usize), String> {
    let mut searcher = SearcherBuilder::new().line_number(true).multi_line(multi_line).invert_match(invert)
        .after_context(after).before_context(before).passthru(passthru).bom_sniffing(bom_sniffing).build();
    let mut rec = Rec::new(input, refuse_at);
    let r = match strat {
        0 => searcher.search_slice(m, input, &mut rec),
        1 => searcher.search_reader(m, Chunked { data: input, pos: 0, chunk: 2 }, &mut rec),
        _ => {
            // the file strategy (no memory map): the input written to a scratch file of this thread
            let path = std::env::current_dir().unwrap().join(format!("scratch_{:?}.bin", std::thread::current().id()).replace(['(', ')'], "_"));
            std::fs::write(&path, input).map_err(|e| e.to_string())?;
            let r = searcher.search_path(m, &path, &mut rec);
            let _ = std::fs::remove_file(&path);
            r
        }
    };
    if r.is_err() { return Err("the search returned an error".into()); }
    Ok((rec.evs, rec.bad_bytes, rec.finished, rec.after_stop))
}

const STRATS: [&str; 3] = ["slice", "reader", "file"];

fn check(pi: usize, input: &[u8], invert: bool, after: usize, before: usize, passthru: bool, strat: usize) -> Option<String> {
    let m = RegexMatcherBuilder::new().multi_line(true).build(PATTERNS[pi]).unwrap();
    let lines = lines_of(input);
    let sel = overlapped(&m, input, &lines, false);
    // class of the listed known finding (C13, inverted): the two resumption rules select different lines
    let known = invert && overlapped(&m, input, &lines, true) != sel;
    let only_known = std::env::var("VERIF_ML_CLASS").map(|v| v == "known").unwrap_or(false);
    if known != only_known { return None; }
    let want = expected(input, &lines, &sel, invert, after, before, passthru);
    let (evs, bad, finished, _) = match run(&m, input, invert, after, before, passthru, strat, usize::MAX) { Ok(x) => x, Err(e) => return Some(e) };
    if bad { return Some("a delivered range is not the input's bytes at its offset".into()); }
    if finished != 1 { return Some(format!("finish was signalled {} times", finished)); }
    // compare line by line: how many adjacent matching lines one `matched` call carries is not part of the
    // property (the line-by-line fallback for patterns that cannot match a terminator delivers them singly)
    let split = |evs: &[Ev]| -> Vec<Ev> {
        let mut out = vec![];
        for e in evs {
            if e.kind != 1 { out.push(e.clone()); continue; }
            let (mut o, end, mut ln) = (e.off as usize, e.off as usize + e.len, e.ln);
            while o < end {
                let le = input[o..end].iter().position(|&b| b == b'\n').map(|i| o + i + 1).unwrap_or(end);
                out.push(Ev { kind: 1, off: o as u64, len: le - o, ln });
                o = le;
                ln += 1;
            }
        }
        out
    };
    if split(&evs) != split(&want) {
        return Some(format!("delivered {:?}, the property demands {:?} (kind 1 match, 2 before, 3 after, 4 other, 5 separator, 6 finish)", evs, want));
    }
    // C16: a sink that answers `false` at event k gets exactly the first k+1 deliveries of the uninterrupted
    // run, then finish, exactly once, and nothing else (slice strategy; only outside the known class)
    if strat == 0 && !only_known {
        for k in 0..evs.len().saturating_sub(1) {
            let (ek, _, fin, after_stop) = match run(&m, input, invert, after, before, passthru, 0, k) { Ok(x) => x, Err(e) => return Some(e) };
            if ek[..] != evs[..=k] || fin != 1 || after_stop != 0 {
                return Some(format!("a sink that stops at event {} was handed {:?} (finish x{}, {} deliveries after the stop); the uninterrupted run delivers {:?}", k, ek, fin, after_stop, evs));
            }
        }
    }
    None
}

/// state carried over: a Searcher that has already searched another input (through the reader and the file
/// strategy, which fill its internal multi-line buffer) must deliver for this input what a fresh one delivers
fn check_reuse(pi: usize, input: &[u8]) -> Option<String> {
    let m = RegexMatcherBuilder::new().multi_line(true).build(PATTERNS[pi]).unwrap();
    let fresh = match run(&m, input, false, 0, 0, false, 1, usize::MAX) { Ok(x) => x.0, Err(e) => return Some(e) };
    for ml in [true, false] {
        let mut searcher = SearcherBuilder::new().line_number(true).multi_line(ml).build();
        let other: &[u8] = b"b\na\nb\n-\n";
        let mut r0 = Rec::new(other, usize::MAX);
        if searcher.search_reader(&m, Chunked { data: other, pos: 0, chunk: 3 }, &mut r0).is_err() { return Some("the first search failed".into()); }
        let mut r1 = Rec::new(input, usize::MAX);
        if searcher.search_reader(&m, Chunked { data: input, pos: 0, chunk: 2 }, &mut r1).is_err() { return Some("the second search failed".into()); }
        let base = if ml { fresh.clone() } else {
            let mut s2 = SearcherBuilder::new().line_number(true).multi_line(false).build();
            let mut r = Rec::new(input, usize::MAX);
            let _ = s2.search_reader(&m, Chunked { data: input, pos: 0, chunk: 2 }, &mut r);
            r.evs
        };
        if r1.bad_bytes || r1.evs != base {
            return Some(format!("a searcher (multi_line={}) that searched another input before delivers {:?} (bytes {}), a fresh one {:?}", ml, r1.evs, if r1.bad_bytes { "NOT the input's" } else { "ok" }, base));
        }
    }
    None
}

/// C02/C13 across strategies on inputs that start with a byte-order mark: reader and file strategies deliver
/// what the slice strategy delivers (no model: the BOM is stripped by all three or by none)
fn check_bom(pi: usize, tail: &[u8]) -> Option<String> {
    let m = RegexMatcherBuilder::new().multi_line(true).build(PATTERNS[pi]).unwrap();
    let mut input = vec![0xEF, 0xBB, 0xBF];
    input.extend_from_slice(tail);
    // with and without BOM sniffing (`-E none` switches it off), multi-line and line-by-line searcher
    for sniff in [true, false] { for ml in [true, false] {
        let base = match run_cfg(&m, &input, false, 0, 0, false, 0, usize::MAX, sniff, ml) { Ok(x) => x.0, Err(e) => return Some(e) };
        for strat in 1..3 {
            let evs = match run_cfg(&m, &input, false, 0, 0, false, strat, usize::MAX, sniff, ml) { Ok(x) => x.0, Err(e) => return Some(e) };
            if evs != base {
                return Some(format!("input with a UTF-8 BOM (bom_sniffing={}, multi_line={}): the {} strategy delivers {:?}, the slice strategy {:?}", sniff, ml, STRATS[strat], evs, base));
            }
        }
    }}
    None
}

fn hex(b: &[u8]) -> String { if b.is_empty() { "-".into() } else { b.iter().map(|x| format!("{:02x}", x)).collect() } }
fn unhex(h: &str) -> Vec<u8> { if h == "-" { vec![] } else { (0..h.len() / 2).map(|i| u8::from_str_radix(&h[2 * i..2 * i + 2], 16).unwrap()).collect() } }
fn report(pi: usize, input: &[u8], inv: bool, a: usize, b: usize, pt: bool, strat: usize, w: &str) {
    if strat == 8 {
        println!("FAILING CASE multi-line/reused-searcher pattern={:?} input={:?}: {}", PATTERNS[pi], String::from_utf8_lossy(input), w);
    } else if strat == 9 {
        println!("FAILING CASE multi-line/BOM pattern={:?} input=BOM+{:?}: {}", PATTERNS[pi], String::from_utf8_lossy(input), w);
    } else {
        println!("FAILING CASE multi-line pattern={:?} input={:?} invert={} after={} before={} passthru={} strategy={}: {}", PATTERNS[pi], String::from_utf8_lossy(input), inv, a, b, pt, STRATS[strat], w);
    }
    println!("VERIF_REPLAY_PATTERN={} VERIF_REPLAY_INPUT={} VERIF_REPLAY_INVERT={} VERIF_REPLAY_AFTER={} VERIF_REPLAY_BEFORE={} VERIF_REPLAY_PASSTHRU={} VERIF_REPLAY_STRATEGY={}", pi, hex(input), inv as u8, a, b, pt as u8, strat);
}

fn main() {
    let g = |k: &str| std::env::var(k).ok();
    if let Some(p) = g("VERIF_REPLAY_PATTERN") {
        let pi: usize = p.parse().unwrap();
        let input = unhex(&g("VERIF_REPLAY_INPUT").unwrap());
        let n = |k: &str| g(k).and_then(|v| v.parse::<usize>().ok()).unwrap_or(0);
        let (inv, a, b, pt, st) = (n("VERIF_REPLAY_INVERT") != 0, n("VERIF_REPLAY_AFTER"), n("VERIF_REPLAY_BEFORE"), n("VERIF_REPLAY_PASSTHRU") != 0, n("VERIF_REPLAY_STRATEGY"));
        let res = if st == 8 { check_reuse(pi, &input) } else if st == 9 { check_bom(pi, &input) } else { check(pi, &input, inv, a, b, pt, st) };
        match res {
            Some(w) => { report(pi, &input, inv, a, b, pt, st, &w); std::process::exit(1); }
            None => { println!("replayed case agrees"); return; }
        }
    }
    let maxlen: usize = g("VERIF_ML_LEN").and_then(|s| s.parse().ok()).unwrap_or(6);
    let survey = g("VERIF_ML_ALL").is_some();
    let mut ins: Vec<Vec<u8>> = vec![vec![]];
    let mut cur: Vec<Vec<u8>> = vec![vec![]];
    for _ in 0..maxlen {
        let mut next = vec![];
        for w in &cur { for &b in ALPHA { let mut v = w.clone(); v.push(b); next.push(v); } }
        ins.extend(next.iter().cloned());
        cur = next;
    }
    eprintln!("multi-line: {} patterns x {} inputs x invert x (after 0..1 x before 0..1 | passthru) x slice/reader/file, + refusal at every event, + BOM inputs", PATTERNS.len(), ins.len());
    let next = std::sync::atomic::AtomicUsize::new(0);
    let best: std::sync::Mutex<Option<(usize, usize, String, (bool, usize, usize, bool, usize))>> = std::sync::Mutex::new(None);
    let threads = std::thread::available_parallelism().map(|x| x.get()).unwrap_or(4).min(16);
    std::thread::scope(|s| {
        for _ in 0..threads {
            s.spawn(|| loop {
                let pi = next.fetch_add(1, std::sync::atomic::Ordering::SeqCst);
                if pi >= PATTERNS.len() { break; }
                'inp: for (ii, inp) in ins.iter().enumerate() {
                    for inv in [false, true] { for (a, b, pt) in [(0usize, 0usize, false), (1, 0, false), (0, 1, false), (1, 1, false), (0, 0, true)] { for st in 0..3usize {
                        if let Some(w) = check(pi, inp, inv, a, b, pt, st) {
                            if survey { println!("ALL pattern={:?} input={:?} inv={} a={} b={} pt={} st={} {}", PATTERNS[pi], String::from_utf8_lossy(inp), inv, a, b, pt, st, w); continue; }
                            let mut bb = best.lock().unwrap();
                            if bb.as_ref().map_or(true, |o| (pi, ii) < (o.0, o.1)) { *bb = Some((pi, ii, w, (inv, a, b, pt, st))); }
                            break 'inp;
                        }
                    }}}
                    if std::env::var("VERIF_ML_CLASS").is_err() {
                        if let Some(w) = check_reuse(pi, inp) {
                            if survey { println!("ALL REUSE pattern={:?} input={:?} {}", PATTERNS[pi], String::from_utf8_lossy(inp), w); continue; }
                            let mut bb = best.lock().unwrap();
                            if bb.as_ref().map_or(true, |o| (pi, ii) < (o.0, o.1)) { *bb = Some((pi, ii, w, (false, 0, 0, false, 8))); }
                            break 'inp;
                        }
                    }
                    if inp.len() <= 4 && std::env::var("VERIF_ML_CLASS").is_err() {
                        if let Some(w) = check_bom(pi, inp) {
                            if survey { println!("ALL BOM pattern={:?} tail={:?} {}", PATTERNS[pi], String::from_utf8_lossy(inp), w); continue; }
                            let mut bb = best.lock().unwrap();
                            if bb.as_ref().map_or(true, |o| (pi, ii) < (o.0, o.1)) { *bb = Some((pi, ii, w, (false, 0, 0, false, 9))); }
                            break 'inp;
                        }
                    }
                }
            });
        }
    });
    match best.into_inner().unwrap() {
        Some((pi, ii, w, (inv, a, b, pt, st))) => { report(pi, &ins[ii], inv, a, b, pt, st, &w); std::process::exit(1); }
        None => println!("multi-line twin len<={}: all cases agree", maxlen),
    }
}
