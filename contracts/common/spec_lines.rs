// ===== SPEC: pure mathematics about lines in a byte sequence (no executable code) =====

/// no terminator `t` in s[lo..hi)
pub open spec fn no_term(s: Seq<u8>, t: u8, lo: int, hi: int) -> bool {
    forall|i: int| lo <= i < hi ==> #[trigger] s[i] != t
}

/// `i` is the start of a line of `s` (or `s.len()` directly after a terminator)
pub open spec fn is_line_start(s: Seq<u8>, t: u8, i: int) -> bool {
    0 <= i <= s.len() && (i == 0 || s[i - 1] == t)
}

/// `i` is a line boundary: a line start, or the end of the sequence
pub open spec fn line_bound(s: Seq<u8>, t: u8, i: int) -> bool {
    is_line_start(s, t, i) || i == s.len()
}

/// number of terminators in s[lo..hi)
pub open spec fn count_terms(s: Seq<u8>, t: u8, lo: int, hi: int) -> nat
    decreases hi - lo,
{
    if lo >= hi {
        0
    } else {
        count_terms(s, t, lo, hi - 1) + if s[hi - 1] == t { 1nat } else { 0nat }
    }
}

pub proof fn lemma_count_terms_split(s: Seq<u8>, t: u8, lo: int, mid: int, hi: int)
    requires lo <= mid <= hi,
    ensures count_terms(s, t, lo, hi) == count_terms(s, t, lo, mid) + count_terms(s, t, mid, hi),
    decreases hi - mid,
{
    if mid < hi {
        lemma_count_terms_split(s, t, lo, mid, hi - 1);
    }
}

pub proof fn lemma_count_terms_none(s: Seq<u8>, t: u8, lo: int, hi: int)
    requires no_term(s, t, lo, hi),
    ensures count_terms(s, t, lo, hi) == 0,
    decreases hi - lo,
{
    if lo < hi {
        lemma_count_terms_none(s, t, lo, hi - 1);
    }
}

pub proof fn lemma_count_terms_bound(s: Seq<u8>, t: u8, lo: int, hi: int)
    ensures count_terms(s, t, lo, hi) <= (if hi >= lo { hi - lo } else { 0 }),
    decreases hi - lo,
{
    if lo < hi {
        lemma_count_terms_bound(s, t, lo, hi - 1);
    }
}

pub proof fn lemma_count_terms_subrange(s: Seq<u8>, t: u8, a: int, b: int, lo: int, hi: int)
    requires 0 <= a <= b <= s.len(), 0 <= lo <= hi <= b - a,
    ensures count_terms(s.subrange(a, b), t, lo, hi) == count_terms(s, t, a + lo, a + hi),
    decreases hi - lo,
{
    if lo < hi {
        lemma_count_terms_subrange(s, t, a, b, lo, hi - 1);
    }
}

/// the index just after the first terminator at or after `i`, or `s.len()`
pub open spec fn line_end_from(s: Seq<u8>, t: u8, i: int) -> int
    decreases s.len() - i,
{
    if i >= s.len() {
        s.len() as int
    } else if s[i] == t {
        i + 1
    } else {
        line_end_from(s, t, i + 1)
    }
}

pub proof fn lemma_line_end_from(s: Seq<u8>, t: u8, i: int, e: int)
    requires 0 <= i <= e <= s.len(), no_term(s, t, i, e), e == s.len() || s[e] == t,
    ensures line_end_from(s, t, i) == (if e == s.len() { e } else { e + 1 }),
    decreases e - i,
{
    if i < e {
        lemma_line_end_from(s, t, i + 1, e);
    }
}

/// the greatest line start <= i
pub open spec fn line_start_of(s: Seq<u8>, t: u8, i: int) -> int
    decreases i,
{
    if i <= 0 {
        0
    } else if s[i - 1] == t {
        i
    } else {
        line_start_of(s, t, i - 1)
    }
}

pub proof fn lemma_line_start_of(s: Seq<u8>, t: u8, b: int, i: int)
    requires 0 <= b <= i <= s.len(), is_line_start(s, t, b), no_term(s, t, b, i),
    ensures line_start_of(s, t, i) == b,
    decreases i - b,
{
    if b < i {
        lemma_line_start_of(s, t, b, i - 1);
    }
}

/// [lo, hi) is a non-empty union of whole lines of s
pub open spec fn whole_lines(s: Seq<u8>, t: u8, lo: int, hi: int) -> bool {
    0 <= lo <= hi <= s.len() && is_line_start(s, t, lo) && line_bound(s, t, hi)
}

/// [lo, hi) is exactly one line of s (terminator included if present).  Opaque: callers get
/// it from LineStep::next_match / locate and use it as an atom; the lemmas below reveal it.
#[verifier::opaque]
pub open spec fn one_line(s: Seq<u8>, t: u8, lo: int, hi: int) -> bool {
    0 <= lo < hi <= s.len() && is_line_start(s, t, lo) && no_term(s, t, lo, hi - 1)
        && (s[hi - 1] == t || hi == s.len())
}

/// position used by `preceding_by_pos`: a `pos` just past a terminator belongs to the line it terminates
pub open spec fn prec_pos(s: Seq<u8>, t: u8, pos: int) -> int {
    if pos > 0 && s[pos - 1] == t { pos - 1 } else { pos }
}

pub open spec fn min_nat(a: nat, b: nat) -> nat { if a <= b { a } else { b } }

/// `r` is the start of the line `count` lines before the line containing `pos` (clamped at offset 0)
pub open spec fn is_preceding(s: Seq<u8>, t: u8, pos: int, count: nat, r: int) -> bool {
    let p = prec_pos(s, t, pos);
    0 <= r <= p && is_line_start(s, t, r)
        && count_terms(s, t, r, p) == min_nat(count, count_terms(s, t, 0, p))
}

pub proof fn lemma_count_terms_one(s: Seq<u8>, t: u8, i: int)
    ensures count_terms(s, t, i, i + 1) == (if s[i] == t { 1nat } else { 0nat }),
{
    assert(count_terms(s, t, i, i) == 0);
}

/// strip(line, lt): `line` with its terminator removed (C01: "the line's content with its terminator
/// removed").  A line ends at the terminator BYTE (`\n` for CRLF); with CRLF the `\r` before it is optional and
/// belongs to the terminator when present.
pub open spec fn strip(line: Seq<u8>, lt: LineTerminator) -> Seq<u8> {
    if line.len() > 0 && line[line.len() - 1] == lt.byte_view() {
        let l1 = line.subrange(0, line.len() - 1);
        if lt.crlf_view() && l1.len() > 0 && l1[l1.len() - 1] == 13u8 { l1.subrange(0, l1.len() - 1) } else { l1 }
    } else {
        line
    }
}


// ---- lines of a suffix are the lines of the whole, shifted (the suffix starts at a line start)
pub proof fn lemma_one_line_shift(b: Seq<u8>, t: u8, pos: int, s: int, e: int)
    requires 0 <= pos <= b.len(), line_bound(b, t, pos), 0 <= s, s <= e, e <= b.len() - pos,
    ensures
        one_line(b.subrange(pos, b.len() as int), t, s, e) == one_line(b, t, pos + s, pos + e),
        b.subrange(pos, b.len() as int).subrange(s, e) =~= b.subrange(pos + s, pos + e),
{
    reveal(one_line);
    let sub = b.subrange(pos, b.len() as int);
    assert forall|i: int| 0 <= i < sub.len() implies sub[i] == b[pos + i] by {}
    if s < e {
        assert(sub[e - 1] == b[pos + e - 1]);
        if s > 0 { assert(sub[s - 1] == b[pos + s - 1]); }
        if no_term(sub, t, s, e - 1) {
            assert forall|i: int| pos + s <= i < pos + e - 1 implies #[trigger] b[i] != t by {
                assert(sub[i - pos] == b[i]);
            }
        }
        if no_term(b, t, pos + s, pos + e - 1) {
            assert forall|i: int| s <= i < e - 1 implies #[trigger] sub[i] != t by {
                assert(sub[i] == b[pos + i]);
            }
        }
    }
}

pub proof fn lemma_line_start_of_shift(b: Seq<u8>, t: u8, pos: int, i: int)
    requires 0 <= pos <= b.len(), is_line_start(b, t, pos), 0 <= i <= b.len() - pos,
    ensures line_start_of(b.subrange(pos, b.len() as int), t, i) + pos == line_start_of(b, t, pos + i),
    decreases i,
{
    let sub = b.subrange(pos, b.len() as int);
    if i > 0 {
        assert(sub[i - 1] == b[pos + i - 1]);
        if sub[i - 1] != t {
            lemma_line_start_of_shift(b, t, pos, i - 1);
        }
    }
}

pub proof fn lemma_line_start_of_le(b: Seq<u8>, t: u8, i: int)
    requires 0 <= i <= b.len(),
    ensures 0 <= line_start_of(b, t, i) <= i, is_line_start(b, t, line_start_of(b, t, i)),
        no_term(b, t, line_start_of(b, t, i), i),
    decreases i,
{
    if i > 0 && b[i - 1] != t {
        lemma_line_start_of_le(b, t, i - 1);
    }
}

pub proof fn lemma_line_end_from_shift(b: Seq<u8>, t: u8, pos: int, i: int)
    requires 0 <= pos <= b.len(), 0 <= i <= b.len() - pos,
    ensures line_end_from(b.subrange(pos, b.len() as int), t, i) + pos == line_end_from(b, t, pos + i),
    decreases b.len() - pos - i,
{
    let sub = b.subrange(pos, b.len() as int);
    if i < sub.len() {
        assert(sub[i] == b[pos + i]);
        if sub[i] != t {
            lemma_line_end_from_shift(b, t, pos, i + 1);
        }
    }
}

pub proof fn lemma_line_end_from_props(b: Seq<u8>, t: u8, i: int)
    requires 0 <= i <= b.len(),
    ensures
        i <= line_end_from(b, t, i) <= b.len(),
        i < b.len() ==> i < line_end_from(b, t, i),
        no_term(b, t, i, line_end_from(b, t, i) - 1),
        line_bound(b, t, line_end_from(b, t, i)),
        i < b.len() ==> (b[line_end_from(b, t, i) - 1] == t || line_end_from(b, t, i) == b.len()),
    decreases b.len() - i,
{
    if i < b.len() && b[i] != t {
        lemma_line_end_from_props(b, t, i + 1);
    }
}

/// two lines that overlap are the same line
pub proof fn lemma_lines_disjoint(b: Seq<u8>, t: u8, a1: int, b1: int, a2: int, b2: int)
    requires one_line(b, t, a1, b1), one_line(b, t, a2, b2), a1 < b2, a2 < b1,
    ensures a1 == a2 && b1 == b2,
{
    reveal(one_line);
    if a1 < a2 {
        assert(b[a2 - 1] == t);
        assert(a1 <= a2 - 1 < b1 - 1);
    }
    if a2 < a1 {
        assert(b[a1 - 1] == t);
        assert(a2 <= a1 - 1 < b2 - 1);
    }
    if b1 < b2 {
        assert(b[b1 - 1] == t);
    }
    if b2 < b1 {
        assert(b[b2 - 1] == t);
    }
}

pub proof fn lemma_one_line_intro(b: Seq<u8>, t: u8, s: int, e: int)
    requires 0 <= s < e <= b.len(), is_line_start(b, t, s), no_term(b, t, s, e - 1), b[e - 1] == t || e == b.len(),
    ensures one_line(b, t, s, e),
{ reveal(one_line); }

pub proof fn lemma_one_line_props(b: Seq<u8>, t: u8, s: int, e: int)
    requires one_line(b, t, s, e),
    ensures 0 <= s < e <= b.len(), whole_lines(b, t, s, e), is_line_start(b, t, s), line_bound(b, t, e),
        line_end_from(b, t, s) == e,
{
    reveal(one_line);
    if b[e - 1] == t { lemma_line_end_from(b, t, s, e - 1); } else { lemma_line_end_from(b, t, s, e); }
}

/// the line found by locate around a position is a line
pub proof fn lemma_one_line_around(b: Seq<u8>, t: u8, i: int)
    requires 0 <= i < b.len() || (0 <= i <= b.len() && line_start_of(b, t, i) < line_end_from(b, t, i)),
    ensures one_line(b, t, line_start_of(b, t, i), line_end_from(b, t, i)),
{
    reveal(one_line);
    lemma_line_start_of_le(b, t, i);
    lemma_line_end_from_props(b, t, i);
    let s = line_start_of(b, t, i);
    let e = line_end_from(b, t, i);
    assert forall|j: int| s <= j < e - 1 implies #[trigger] b[j] != t by {
        if j < i { } else { }
    }
}

/// a line start at or before i is at or before the start of i's line
pub proof fn lemma_line_start_of_ge(b: Seq<u8>, t: u8, ls: int, i: int)
    requires 0 <= ls <= i <= b.len(), is_line_start(b, t, ls),
    ensures ls <= line_start_of(b, t, i),
    decreases i - ls,
{
    if i > ls && b[i - 1] != t {
        lemma_line_start_of_ge(b, t, ls, i - 1);
    }
}

/// spec of lines::locate: the whole lines containing [s, e)
pub open spec fn loc_s(b: Seq<u8>, t: u8, s: int, e: int) -> int { line_start_of(b, t, s) }
pub open spec fn loc_e(b: Seq<u8>, t: u8, s: int, e: int) -> int {
    if e > line_start_of(b, t, s) && b[e - 1] == t { e } else { line_end_from(b, t, e) }
}
