// ===== TRUSTED (T-proc): the environment of crates/core/search.rs SearchWorker =====
// Everything SearchWorker calls is a stand-in with the same public shape: std::{process::Command, fs::File,
// io}, grep::cli readers and builders, the searcher, the printers, ignore's Override.  Outcomes of the
// environment (can the command be started, does the search of its output succeed, does closing it
// succeed, is a path selected by --pre-glob / recognised as compressed) are unconstrained ghost values,
// so the contracts of search_preprocessor / search_decompress / search are proved for all of them.
// `format!(..)` builds an opaque String.
macro_rules! format {
    ($($t:tt)*) => { crate::envstd::fmt_stub() };
}

/// ghost: searching the output of the reader with this identity succeeds / finds a match
pub uninterp spec fn g_search_ok(rid: int) -> bool;
pub uninterp spec fn g_has_match(rid: int) -> bool;
/// ghost: closing that reader after the search succeeds (CommandReader::close, proved in unit cliproc:
/// success exit, or stopped early with empty stderr)
pub uninterp spec fn g_close_ok(rid: int) -> bool;
/// ghost identity of a reader value of any type
pub uninterp spec fn rd_id<R>(r: &R) -> int;
/// ghost (C15): while the data for this path is searched, the consumer of stdout goes away, i.e. the search
/// ends with a broken-pipe error
pub uninterp spec fn g_sfbp(p: &crate::envstd::path::Path) -> bool;
/// ghost: the file can be opened / the command can be started / a decompression reader can be built
pub uninterp spec fn g_open_ok() -> bool;
pub uninterp spec fn g_spawn_ok() -> bool;
pub uninterp spec fn g_dec_build_ok(p: &crate::envstd::path::Path) -> bool;

pub mod envstd {
    use vstd::prelude::*;
    #[verifier::external_body]
    pub fn fmt_stub() -> String { unimplemented!() }
    pub mod path {
        #[derive(Debug)]
        pub struct Path { _p: u8 }
        #[derive(Clone, Debug)]
        pub struct PathBuf { _p: u8 }
    }
    pub mod io {
        use vstd::prelude::*;
        #[derive(Debug)]
        pub struct Error { _p: u8 }
        #[derive(Clone, Copy, PartialEq, Eq)]
        pub enum ErrorKind { Other, NotFound, BrokenPipe }
        pub type Result<T> = core::result::Result<T, Error>;
        impl Error {
            /// ghost: the error is "the consumer of stdout went away" (ErrorKind::BrokenPipe)
            pub uninterp spec fn bp(&self) -> bool;
            #[verifier::external_body]
            pub fn new(kind: ErrorKind, msg: String) -> (r: Error) ensures r.bp() == (kind is BrokenPipe) { unimplemented!() }
            #[verifier::external_body]
            pub fn kind(&self) -> (r: ErrorKind) ensures (r is BrokenPipe) == self.bp() { unimplemented!() }
        }
        pub trait Read {}
        pub struct Stdin { _p: u8 }
        pub struct StdinLock { _p: u8 }
        impl Read for StdinLock {}
        #[verifier::external_body]
        pub fn stdin() -> Stdin { unimplemented!() }
        impl Stdin {
            #[verifier::external_body]
            pub fn lock(&self) -> StdinLock { unimplemented!() }
        }
    }
    pub mod fs {
        use vstd::prelude::*;
        pub struct File { _p: u8 }
        impl File {
            #[verifier::external_body]
            pub fn open<P>(p: P) -> (r: super::io::Result<File>) ensures (r is Ok) == crate::g_open_ok() { unimplemented!() }
        }
    }
    pub mod process {
        use vstd::prelude::*;
        pub struct Stdio { _p: u8 }
        impl Stdio {
            #[verifier::external_body]
            pub fn from<T>(t: T) -> Stdio { unimplemented!() }
        }
        #[derive(Debug)]
        pub struct Command { _p: u8 }
        impl Command {
            #[verifier::external_body]
            pub fn new<S>(s: S) -> Command { unimplemented!() }
            #[verifier::external_body]
            pub fn arg<S>(&mut self, s: S) -> &mut Command { unimplemented!() }
            #[verifier::external_body]
            pub fn stdin<S>(&mut self, s: S) -> &mut Command { unimplemented!() }
        }
    }
}

pub mod termcolor {
    pub trait WriteColor {}
}

pub mod haystack {
    use vstd::prelude::*;
    use crate::envstd::path::Path;
    pub struct Haystack { _p: u8 }
    impl Haystack {
        pub uninterp spec fn v_stdin(&self) -> bool;
        pub uninterp spec fn v_explicit(&self) -> bool;
        #[verifier::external_body]
        pub(crate) fn is_stdin(&self) -> (r: bool) ensures r == self.v_stdin() { unimplemented!() }
        #[verifier::external_body]
        pub(crate) fn is_explicit(&self) -> (r: bool) ensures r == self.v_explicit() { unimplemented!() }
        #[verifier::external_body]
        pub(crate) fn path(&self) -> &Path { unimplemented!() }
    }
}

pub mod ignore {
    pub mod overrides {
        use vstd::prelude::*;
        use crate::envstd::path::Path;
        #[derive(Clone, Debug)]
        pub struct Override { _p: u8 }
        pub struct Glob { _p: u8 }
        /// ghost: no --pre-glob was given / the path is NOT selected by the --pre-glob overrides
        pub uninterp spec fn ovr_empty(o: &Override) -> bool;
        pub uninterp spec fn ovr_ignores(o: &Override, p: &Path) -> bool;
        impl Override {
            #[verifier::external_body]
            pub fn empty() -> Override { unimplemented!() }
            #[verifier::external_body]
            pub fn is_empty(&self) -> (r: bool) ensures r == ovr_empty(self) { unimplemented!() }
            #[verifier::external_body]
            pub fn matched(&self, path: &Path, is_dir: bool) -> (m: crate::ignore::Match<Glob>)
                ensures m.v_ignore() == ovr_ignores(self, path)
            { unimplemented!() }
        }
    }
    use vstd::prelude::*;
    pub struct Match<T> { _p: core::marker::PhantomData<T> }
    impl<T> Match<T> {
        /// ghost: which of the three variants (None / Ignore / Whitelist) the match is
        pub uninterp spec fn v_ignore(&self) -> bool;
        pub uninterp spec fn v_whitelist(&self) -> bool;
        #[verifier::external_body]
        pub fn is_ignore(&self) -> (r: bool) ensures r == self.v_ignore() { unimplemented!() }
        #[verifier::external_body]
        pub fn is_whitelist(&self) -> (r: bool) ensures r == self.v_whitelist(), r ==> !self.v_ignore() { unimplemented!() }
        #[verifier::external_body]
        pub fn is_none(&self) -> (r: bool) ensures r == (!self.v_ignore() && !self.v_whitelist()) { unimplemented!() }
    }
}

pub mod grep {
    pub mod matcher {
        pub trait Matcher {}
    }
    pub mod regex {
        #[derive(Clone, Debug)]
        pub struct RegexMatcher { _p: u8 }
    }
    // the variant is behind #[cfg(feature = "pcre2")] (off); the verus! macro still resolves the path
    pub mod pcre2 {
        #[derive(Clone, Debug)]
        pub struct RegexMatcher { _p: u8 }
    }
    pub mod printer {
        #[derive(Clone, Debug)]
        pub struct Stats { _p: u8 }
        #[derive(Clone, Debug)]
        pub struct Standard<W> { w: W }
        #[derive(Clone, Debug)]
        pub struct Summary<W> { w: W }
        #[derive(Clone, Debug)]
        pub struct JSON<W> { w: W }
    }
    pub mod searcher {
        use vstd::prelude::*;
        #[derive(Clone, Debug)]
        pub struct BinaryDetection { _p: u8 }
        impl BinaryDetection {
            #[verifier::external_body]
            pub fn none() -> BinaryDetection { unimplemented!() }
        }
        #[derive(Clone, Debug)]
        pub struct Searcher { _p: u8 }
        impl Searcher {
            #[verifier::external_body]
            pub fn set_binary_detection(&mut self, detection: BinaryDetection) { unimplemented!() }
        }
    }
    pub mod cli {
        use vstd::prelude::*;
        use crate::*;
        use crate::envstd::{io, path::Path, process::Command};
        #[derive(Debug)]
        pub struct CommandError { _p: u8 }
        #[verifier::external]
        impl core::fmt::Display for CommandError {
            fn fmt(&self, f: &mut core::fmt::Formatter<'_>) -> core::fmt::Result { Ok(()) }
        }
        impl From<CommandError> for io::Error {
            #[verifier::external_body]
            fn from(e: CommandError) -> io::Error { unimplemented!() }
        }
        /// the builder's one setting that matters here: stderr of the command is drained on a helper thread
        /// (so that a command writing a lot to stderr cannot block); off by default, as in the real builder
        #[derive(Debug)]
        pub struct CommandReaderBuilder { pub async_stderr: bool }
        impl Clone for CommandReaderBuilder {
            fn clone(&self) -> (r: Self) ensures r == *self { CommandReaderBuilder { async_stderr: self.async_stderr } }
        }
        #[derive(Debug)]
        pub struct CommandReader { _p: u8 }
        impl io::Read for CommandReader {}
        impl CommandReaderBuilder {
            pub fn new() -> (r: CommandReaderBuilder) ensures !r.async_stderr { CommandReaderBuilder { async_stderr: false } }
            #[verifier::external_body]
            pub fn async_stderr(&mut self, yes: bool) -> &mut CommandReaderBuilder
                ensures final(self).async_stderr == yes,
            { unimplemented!() }
            /// starting the command may fail; nothing is assumed about the reader it yields
            #[verifier::external_body]
            pub fn build(&self, command: &mut Command) -> (r: Result<CommandReader, CommandError>) ensures (r is Ok) == g_spawn_ok() { unimplemented!() }
        }
        impl CommandReader {
            #[verifier::external_body]
            pub fn close(&mut self) -> (r: io::Result<()>)
                ensures (r is Ok) == g_close_ok(rd_id(old(self))), rd_id(final(self)) == rd_id(old(self)),
            { unimplemented!() }
        }
        #[derive(Clone, Debug)]
        pub struct DecompressionMatcher { _p: u8 }
        /// ghost: the path is recognised as a compressed file
        pub uninterp spec fn dm_has_command(m: &DecompressionMatcher, p: &Path) -> bool;
        impl DecompressionMatcher {
            #[verifier::external_body]
            pub fn has_command(&self, path: &Path) -> (r: bool) ensures r == dm_has_command(self, path) { unimplemented!() }
        }
        #[derive(Debug)]
        pub struct DecompressionReaderBuilder { pub async_stderr: bool, pub matcher: DecompressionMatcher }
        impl Clone for DecompressionReaderBuilder {
            #[verifier::external_body]
            fn clone(&self) -> (r: Self) ensures r == *self { unimplemented!() }
        }
        #[derive(Debug)]
        pub struct DecompressionReader { _p: u8 }
        impl io::Read for DecompressionReader {}
        impl DecompressionReaderBuilder {
            #[verifier::external_body]
            pub fn new() -> (r: DecompressionReaderBuilder) ensures !r.async_stderr { unimplemented!() }
            #[verifier::external_body]
            pub fn async_stderr(&mut self, yes: bool) -> &mut DecompressionReaderBuilder
                ensures final(self).async_stderr == yes, final(self).matcher == old(self).matcher,
            { unimplemented!() }
            pub open spec fn v_matcher(&self) -> DecompressionMatcher { self.matcher }
            pub fn get_matcher(&self) -> (r: &DecompressionMatcher) ensures *r == self.v_matcher() { &self.matcher }
            #[verifier::external_body]
            pub fn build(&self, path: &Path) -> (r: Result<DecompressionReader, CommandError>) ensures (r is Ok) == g_dec_build_ok(path) { unimplemented!() }
        }
        impl DecompressionReader {
            #[verifier::external_body]
            pub fn close(&mut self) -> (r: io::Result<()>)
                ensures (r is Ok) == g_close_ok(rd_id(old(self))), rd_id(final(self)) == rd_id(old(self)),
            { unimplemented!() }
        }
    }
}
