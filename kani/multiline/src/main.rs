//! C13, bounded NATIVE enumeration (not Kani, not a proof): the real multi-line strategy of grep-searcher
//! (path dependency on /repo) with the real grep-regex matcher built as `rg -U` builds it, against the
//! property's own statement: the lines reported are exactly the lines overlapped by the successive
//! leftmost non-overlapping matches enumerated with Matcher::find_at over the WHOLE input (one byte further
//! after an empty match); touching line ranges are one delivery; -v reports exactly the other lines, one
//! by one; context lines, separators, numbers and offsets as in the grep model (C03); finish(len).
use grep_matcher::Matcher;
use grep_regex::RegexMatcherBuilder;
use grep_searcher::{Searcher, SearcherBuilder, Sink, SinkContext, SinkContextKind, SinkFinish, SinkMatch};

const PATTERNS: &[&str] = &["a\nb", "a\n", "\na", "^a", "a$", "a|\n\n", "(?s:a.b)", r"\bb", "b*", "^", "$", "a\n|^", r"\Ab|b\n\z", "a\nb|b\na", r"\n+", "^|a\nb", r"\b|a\nb", "$|b\na", r"\b|a\n-", r"-\n\b"];
const ALPHA: &[u8] = b"ab\n-";

#[derive(Clone, PartialEq, Eq, Debug)]
struct Ev { kind: u8, off: u64, len: usize, ln: u64 } // 1 match, 2 before, 3 after, 4 other, 5 break, 6 finish

struct Rec<'a> { input: &'a [u8], evs: Vec<Ev>, bad_bytes: bool, finished: usize }
impl<'a> Rec<'a> {
    fn bytes(&mut self, off: u64, b: &[u8]) {
        let o = off as usize;
        if o + b.len() > self.input.len() || &self.input[o..o + b.len()] != b { self.bad_bytes = true; }
    }
}
impl<'a> Sink for Rec<'a> {
    type Error = std::io::Error;
    fn matched(&mut self, _s: &Searcher, m: &SinkMatch<'_>) -> Result<bool, std::io::Error> {
        self.bytes(m.absolute_byte_offset(), m.bytes());
        self.evs.push(Ev { kind: 1, off: m.absolute_byte_offset(), len: m.bytes().len(), ln: m.line_number().unwrap_or(0) });
        Ok(true)
    }
    fn context(&mut self, _s: &Searcher, c: &SinkContext<'_>) -> Result<bool, std::io::Error> {
        self.bytes(c.absolute_byte_offset(), c.bytes());
        let k = match c.kind() { SinkContextKind::Before => 2, SinkContextKind::After => 3, SinkContextKind::Other => 4 };
        self.evs.push(Ev { kind: k, off: c.absolute_byte_offset(), len: c.bytes().len(), ln: c.line_number().unwrap_or(0) });
        Ok(true)
    }
    fn context_break(&mut self, _s: &Searcher) -> Result<bool, std::io::Error> {
        self.evs.push(Ev { kind: 5, off: 0, len: 0, ln: 0 });
        Ok(true)
    }
    fn finish(&mut self, _s: &Searcher, f: &SinkFinish) -> Result<(), std::io::Error> {
        self.finished += 1;
        self.evs.push(Ev { kind: 6, off: f.byte_count(), len: 0, ln: 0 });
        Ok(())
    }
}

fn lines_of(input: &[u8]) -> Vec<(usize, usize)> {
    let mut v = vec![];
    let mut s = 0;
    while s < input.len() {
        let e = input[s..].iter().position(|&b| b == b'\n').map(|i| s + i + 1).unwrap_or(input.len());
        v.push((s, e));
        s = e;
    }
    v
}

/// which lines are overlapped by the successive leftmost non-overlapping matches over the whole input.
/// `resume_after_line`: the rule of the listed known finding (inverted search resumes after the LAST LINE of
/// a match instead of after the match); used only to delimit that finding's class of inputs.
fn overlapped<M: Matcher>(m: &M, input: &[u8], lines: &[(usize, usize)], resume_after_line: bool) -> Vec<bool> {
    let mut sel = vec![false; lines.len()];
    let mut pos = 0;
    while pos <= input.len() {
        let mt = match m.find_at(input, pos).ok().flatten() { Some(x) => x, None => break };
        let (s, e) = (mt.start(), mt.end());
        let mut last_line_end = e;
        for (i, &(ls, le)) in lines.iter().enumerate() {
            // line i is overlapped by [s, e): shares a byte with it, or contains the empty match position
            let hit = if s < e { ls < e && s < le } else { ls <= s && (s < le || (s == le && le == input.len() && input[le - 1] != b'\n')) };
            if hit { sel[i] = true; last_line_end = last_line_end.max(le); }
        }
        let step = if s == e { e + 1 } else { e };
        pos = if resume_after_line { last_line_end.max(step) } else { step };
    }
    sel
}

fn expected(input: &[u8], lines: &[(usize, usize)], sel_in: &[bool], invert: bool, after: usize, before: usize) -> Vec<Ev> {
    let n = lines.len();
    let sel: Vec<bool> = sel_in.iter().map(|&b| b != invert).collect();
    let mut out: Vec<Ev> = vec![];
    let mut last: Option<usize> = None;
    let mut i = 0;
    while i < n {
        let is_before = !sel[i] && (1..=before).any(|d| i + d < n && sel[i + d]);
        let is_after = !sel[i] && (1..=after).any(|d| i >= d && sel[i - d]);
        if !(sel[i] || is_before || is_after) { i += 1; continue; }
        if let Some(p) = last { if p + 1 != i && (after > 0 || before > 0) { out.push(Ev { kind: 5, off: 0, len: 0, ln: 0 }); } }
        if sel[i] && !invert {
            // touching line ranges of matches are ONE delivery
            let mut j = i;
            while j + 1 < n && sel[j + 1] { j += 1; }
            out.push(Ev { kind: 1, off: lines[i].0 as u64, len: lines[j].1 - lines[i].0, ln: i as u64 + 1 });
            last = Some(j);
            i = j + 1;
        } else {
            let kind = if sel[i] { 1 } else if is_after { 3 } else { 2 };
            out.push(Ev { kind, off: lines[i].0 as u64, len: lines[i].1 - lines[i].0, ln: i as u64 + 1 });
            last = Some(i);
            i += 1;
        }
    }
    out.push(Ev { kind: 6, off: input.len() as u64, len: 0, ln: 0 });
    out
}

struct Chunked<'a> { data: &'a [u8], pos: usize, chunk: usize }
impl<'a> std::io::Read for Chunked<'a> {
    fn read(&mut self, buf: &mut [u8]) -> std::io::Result<usize> {
        let n = self.chunk.min(buf.len()).min(self.data.len() - self.pos);
        buf[..n].copy_from_slice(&self.data[self.pos..self.pos + n]);
        self.pos += n;
        Ok(n)
    }
}

fn check(pi: usize, input: &[u8], invert: bool, after: usize, before: usize, reader: bool) -> Option<String> {
    let m = RegexMatcherBuilder::new().multi_line(true).build(PATTERNS[pi]).unwrap();
    let lines = lines_of(input);
    let sel = overlapped(&m, input, &lines, false);
    // class of the listed known finding (C13, inverted): the two resumption rules select different lines
    let known = invert && overlapped(&m, input, &lines, true) != sel;
    let only_known = std::env::var("VERIF_ML_CLASS").map(|v| v == "known").unwrap_or(false);
    if known != only_known { return None; }
    let want = expected(input, &lines, &sel, invert, after, before);
    let mut searcher = SearcherBuilder::new().line_number(true).multi_line(true).invert_match(invert)
        .after_context(after).before_context(before).build();
    let mut rec = Rec { input, evs: vec![], bad_bytes: false, finished: 0 };
    let r = if reader { searcher.search_reader(&m, Chunked { data: input, pos: 0, chunk: 2 }, &mut rec) } else { searcher.search_slice(&m, input, &mut rec) };
    if r.is_err() { return Some("the search returned an error".into()); }
    if rec.bad_bytes { return Some("a delivered range is not the input's bytes at its offset".into()); }
    // compare line by line: how many adjacent matching lines one `matched` call carries is not part of the
    // property (the line-by-line fallback for patterns that cannot match a terminator delivers them singly)
    let split = |evs: &[Ev]| -> Vec<Ev> {
        let mut out = vec![];
        for e in evs {
            if e.kind != 1 { out.push(e.clone()); continue; }
            let (mut o, end, mut ln) = (e.off as usize, e.off as usize + e.len, e.ln);
            while o < end {
                let le = input[o..end].iter().position(|&b| b == b'\n').map(|i| o + i + 1).unwrap_or(end);
                out.push(Ev { kind: 1, off: o as u64, len: le - o, ln });
                o = le;
                ln += 1;
            }
        }
        out
    };
    if split(&rec.evs) != split(&want) {
        return Some(format!("delivered {:?}, the property demands {:?} (kind 1 match, 2 before, 3 after, 5 separator, 6 finish)", rec.evs, want));
    }
    None
}

fn hex(b: &[u8]) -> String { if b.is_empty() { "-".into() } else { b.iter().map(|x| format!("{:02x}", x)).collect() } }
fn unhex(h: &str) -> Vec<u8> { if h == "-" { vec![] } else { (0..h.len() / 2).map(|i| u8::from_str_radix(&h[2 * i..2 * i + 2], 16).unwrap()).collect() } }
fn report(pi: usize, input: &[u8], inv: bool, a: usize, b: usize, rd: bool, w: &str) {
    println!("FAILING CASE multi-line pattern={:?} input={:?} invert={} after={} before={} reader={}: {}", PATTERNS[pi], String::from_utf8_lossy(input), inv, a, b, rd, w);
    println!("VERIF_REPLAY_PATTERN={} VERIF_REPLAY_INPUT={} VERIF_REPLAY_INVERT={} VERIF_REPLAY_AFTER={} VERIF_REPLAY_BEFORE={} VERIF_REPLAY_READER={}", pi, hex(input), inv as u8, a, b, rd as u8);
}

fn main() {
    let g = |k: &str| std::env::var(k).ok();
    if let Some(p) = g("VERIF_REPLAY_PATTERN") {
        let pi: usize = p.parse().unwrap();
        let input = unhex(&g("VERIF_REPLAY_INPUT").unwrap());
        let n = |k: &str| g(k).and_then(|v| v.parse::<usize>().ok()).unwrap_or(0);
        let (inv, a, b, rd) = (n("VERIF_REPLAY_INVERT") != 0, n("VERIF_REPLAY_AFTER"), n("VERIF_REPLAY_BEFORE"), n("VERIF_REPLAY_READER") != 0);
        match check(pi, &input, inv, a, b, rd) {
            Some(w) => { report(pi, &input, inv, a, b, rd, &w); std::process::exit(1); }
            None => { println!("replayed case agrees"); return; }
        }
    }
    let maxlen: usize = g("VERIF_ML_LEN").and_then(|s| s.parse().ok()).unwrap_or(6);
    let survey = g("VERIF_ML_ALL").is_some();
    let mut ins: Vec<Vec<u8>> = vec![vec![]];
    let mut cur: Vec<Vec<u8>> = vec![vec![]];
    for _ in 0..maxlen {
        let mut next = vec![];
        for w in &cur { for &b in ALPHA { let mut v = w.clone(); v.push(b); next.push(v); } }
        ins.extend(next.iter().cloned());
        cur = next;
    }
    eprintln!("multi-line: {} patterns x {} inputs x invert x after 0..1 x before 0..1 x slice/reader", PATTERNS.len(), ins.len());
    let next = std::sync::atomic::AtomicUsize::new(0);
    let best: std::sync::Mutex<Option<(usize, usize, String, (bool, usize, usize, bool))>> = std::sync::Mutex::new(None);
    let threads = std::thread::available_parallelism().map(|x| x.get()).unwrap_or(4).min(16);
    std::thread::scope(|s| {
        for _ in 0..threads {
            s.spawn(|| loop {
                let pi = next.fetch_add(1, std::sync::atomic::Ordering::SeqCst);
                if pi >= PATTERNS.len() { break; }
                'inp: for (ii, inp) in ins.iter().enumerate() {
                    for inv in [false, true] { for a in 0..2usize { for b in 0..2usize { for rd in [false, true] {
                        if let Some(w) = check(pi, inp, inv, a, b, rd) {
                            if survey { println!("ALL pattern={:?} input={:?} inv={} a={} b={} rd={} {}", PATTERNS[pi], String::from_utf8_lossy(inp), inv, a, b, rd, w); continue; }
                            let mut bb = best.lock().unwrap();
                            if bb.as_ref().map_or(true, |o| (pi, ii) < (o.0, o.1)) { *bb = Some((pi, ii, w, (inv, a, b, rd))); }
                            break 'inp;
                        }
                    }}}}
                }
            });
        }
    });
    match best.into_inner().unwrap() {
        Some((pi, ii, w, (inv, a, b, rd))) => { report(pi, &ins[ii], inv, a, b, rd, &w); std::process::exit(1); }
        None => println!("multi-line twin len<={}: all cases agree", maxlen),
    }
}
