// ===== SPEC: predicates and lemmas about the ghost event log (no executable code) =====
/// `new` still holds every match that `old` held (the log only grows).  Transitive for free:
/// the quantifier chains along `delivered` terms.
pub(crate) open spec fn grows(old_log: Seq<Ev>, new_log: Seq<Ev>) -> bool {
    old_log.len() <= new_log.len()
    && forall|from: int, off: int| #[trigger] delivered(old_log, from, off) ==> delivered(new_log, from, off)
}

pub(crate) broadcast proof fn lemma_grows_push(a: Seq<Ev>, e: Ev)
    ensures grows(a, #[trigger] a.push(e)),
{
    reveal(delivered);
    assert forall|from: int, off: int| #[trigger] delivered(a, from, off) implies delivered(a.push(e), from, off) by {
        let k = choose|k: int| 0 <= from <= k < a.len() && (#[trigger] a[k] matches Ev::Matched { off: o, .. } && o == off);
        assert(a.push(e)[k] == a[k]);
    }
}

pub(crate) broadcast proof fn lemma_grows_add(a: Seq<Ev>, c: Seq<Ev>)
    ensures grows(a, #[trigger] (a + c)),
{
    reveal(delivered);
    assert forall|from: int, off: int| #[trigger] delivered(a, from, off) implies delivered(a + c, from, off) by {
        let k = choose|k: int| 0 <= from <= k < a.len() && (#[trigger] a[k] matches Ev::Matched { off: o, .. } && o == off);
        assert((a + c)[k] == a[k]);
    }
}

/// new == old ++ [Binary notice]? ++ brk ++ [ev]   (the notice only if binary detection is on)
#[verifier::opaque]
pub(crate) open spec fn appended(old_log: Seq<Ev>, new_log: Seq<Ev>, bin_allowed: bool, brk: Seq<Ev>, ev: Ev) -> bool {
    let n = new_log.len() - old_log.len() - brk.len() - 1;
    &&& new_log.len() >= old_log.len() && new_log.subrange(0, old_log.len() as int) =~= old_log
    &&& (n == 0 || (n == 1 && bin_allowed && new_log[old_log.len() as int] is Binary))
    &&& new_log[new_log.len() - 1] == ev
    &&& (brk.len() == 1 ==> new_log[new_log.len() - 2] == brk[0])
    &&& brk.len() <= 1
}

#[verifier::opaque]
pub(crate) open spec fn delivered(log: Seq<Ev>, from: int, off: int) -> bool {
    exists|k: int| 0 <= from <= k < log.len() && (#[trigger] log[k] matches Ev::Matched { off: o, .. } && o == off)
}

/// the last event of the log is a match at offset off
pub(crate) proof fn lemma_delivered_last(log: Seq<Ev>, from: int, off: int)
    requires 0 <= from < log.len(), log[log.len() - 1] matches Ev::Matched { off: o, .. } && o == off,
    ensures delivered(log, from, off),
{
    reveal(delivered);
    let k = log.len() - 1;
    assert(log[k] matches Ev::Matched { off: o, .. } && o == off);
}

/// every event appended after index `from` that carries a line lies in [lo, hi) (absolute offsets),
/// in increasing order without overlap  -- input order, no line twice
pub(crate) open spec fn ordered_from(log: Seq<Ev>, from: int, lo: int) -> bool
    decreases log.len() - from,
{
    if from >= log.len() {
        true
    } else {
        match log[from] {
            Ev::Matched { off, bytes, .. } => lo <= off && ordered_from(log, from + 1, off + bytes.len()),
            Ev::Ctx { off, bytes, .. } => lo <= off && ordered_from(log, from + 1, off + bytes.len()),
            _ => ordered_from(log, from + 1, lo),
        }
    }
}

pub(crate) broadcast group group_log {
    lemma_grows_push, lemma_grows_add,
}

pub(crate) proof fn lemma_delivered_from(log: Seq<Ev>, f1: int, f2: int, off: int)
    requires delivered(log, f2, off), 0 <= f1 <= f2,
    ensures delivered(log, f1, off),
{
    reveal(delivered);
    let k = choose|k: int| 0 <= f2 <= k < log.len() && (#[trigger] log[k] matches Ev::Matched { off: o, .. } && o == off);
    assert(0 <= f1 <= k < log.len() && (log[k] matches Ev::Matched { off: o, .. } && o == off));
}


// ---- the log without binary notices (a notice may be interleaved once, in the slice strategies)
/// `l` with every Binary notice removed
pub(crate) open spec fn nb(l: Seq<Ev>) -> Seq<Ev>
    decreases l.len(),
{
    if l.len() == 0 {
        l
    } else if l.last() is Binary {
        nb(l.drop_last())
    } else {
        nb(l.drop_last()).push(l.last())
    }
}

pub(crate) proof fn lemma_nb_add(a: Seq<Ev>, b: Seq<Ev>)
    ensures nb(a + b) == nb(a) + nb(b),
    decreases b.len(),
{
    if b.len() == 0 {
        assert(a + b =~= a);
        assert(nb(a) + nb(b) =~= nb(a));
    } else {
        lemma_nb_add(a, b.drop_last());
        assert((a + b).drop_last() =~= a + b.drop_last());
        assert((a + b).last() == b.last());
        if !(b.last() is Binary) {
            assert(nb(a) + nb(b.drop_last()).push(b.last()) =~= (nb(a) + nb(b.drop_last())).push(b.last()));
        }
    }
}

pub(crate) proof fn lemma_nb_no_binary(a: Seq<Ev>)
    requires forall|i: int| 0 <= i < a.len() ==> !(#[trigger] a[i] is Binary),
    ensures nb(a) == a,
    decreases a.len(),
{
    if a.len() > 0 {
        lemma_nb_no_binary(a.drop_last());
        assert(a.drop_last().push(a.last()) =~= a);
    }
}

/// what was appended to the log since it had length n
pub(crate) open spec fn since(log: Seq<Ev>, n: int) -> Seq<Ev> { log.subrange(n, log.len() as int) }

pub(crate) proof fn lemma_since_split(log: Seq<Ev>, n: int, m: int)
    requires 0 <= n <= m <= log.len(),
    ensures since(log, n) == log.subrange(n, m) + since(log, m),
{
    assert(since(log, n) =~= log.subrange(n, m) + since(log, m));
}

/// appended(..) in sequence form: what was appended, binary notice removed, is brk ++ [ev]
pub(crate) proof fn lemma_appended_nb(old_log: Seq<Ev>, new_log: Seq<Ev>, bin: bool, brk: Seq<Ev>, ev: Ev)
    requires
        appended(old_log, new_log, bin, brk, ev), old_log.len() <= new_log.len(),
        !(ev is Binary), forall|i: int| 0 <= i < brk.len() ==> !(#[trigger] brk[i] is Binary),
    ensures nb(since(new_log, old_log.len() as int)) == brk + seq![ev],
{
    reveal(appended);
    let d = since(new_log, old_log.len() as int);
    let n = new_log.len() - old_log.len() - brk.len() - 1;
    let want = brk + seq![ev];
    if n == 0 {
        assert(d =~= want);
        lemma_nb_no_binary(want);
    } else {
        let b = seq![new_log[old_log.len() as int]];
        assert(d =~= b + want);
        lemma_nb_add(b, want);
        lemma_nb_no_binary(want);
        assert(b.drop_last() =~= Seq::<Ev>::empty());
        assert(b.last() is Binary);
        reveal_with_fuel(nb, 3);
        assert(nb(b.drop_last()) =~= Seq::<Ev>::empty());
        assert(nb(b) =~= Seq::<Ev>::empty());
        assert(nb(b) + nb(want) =~= want);
    }
}


/// appended(..) relative to an earlier point n0 of the log
pub(crate) proof fn lemma_appended_since(old_log: Seq<Ev>, new_log: Seq<Ev>, bin: bool, brk: Seq<Ev>, ev: Ev, n0: int)
    requires
        appended(old_log, new_log, bin, brk, ev), 0 <= n0 <= old_log.len(),
        !(ev is Binary), forall|i: int| 0 <= i < brk.len() ==> !(#[trigger] brk[i] is Binary),
    ensures nb(since(new_log, n0)) == nb(since(old_log, n0)) + brk + seq![ev],
{
    assert(old_log.len() <= new_log.len() && new_log.subrange(0, old_log.len() as int) =~= old_log) by { reveal(appended); }
    lemma_appended_nb(old_log, new_log, bin, brk, ev);
    lemma_since_split(new_log, n0, old_log.len() as int);
    assert(new_log.subrange(n0, old_log.len() as int) =~= since(old_log, n0)) by {
        assert forall|i: int| 0 <= i < old_log.len() - n0 implies new_log.subrange(n0, old_log.len() as int)[i] == since(old_log, n0)[i] by {
            assert(new_log.subrange(0, old_log.len() as int)[n0 + i] == old_log[n0 + i]);
        }
    }
    lemma_nb_add(since(old_log, n0), since(new_log, old_log.len() as int));
    assert(nb(since(old_log, n0)) + (brk + seq![ev]) =~= nb(since(old_log, n0)) + brk + seq![ev]);
}

/// a pure prefix-preserving extension by `add` (no binary notice in it)
pub(crate) proof fn lemma_since_add(old_log: Seq<Ev>, add: Seq<Ev>, n0: int)
    requires 0 <= n0 <= old_log.len(), forall|i: int| 0 <= i < add.len() ==> !(#[trigger] add[i] is Binary),
    ensures nb(since(old_log + add, n0)) == nb(since(old_log, n0)) + add,
{
    assert(since(old_log + add, n0) =~= since(old_log, n0) + add);
    lemma_nb_add(since(old_log, n0), add);
    lemma_nb_no_binary(add);
}
