#!/usr/bin/env python3
"""confirm_seeds.py: for every incoming seeded change (seeded_incoming/<prop>/{x.patch,demo_x.rs,notes.md})
confirm, in a scratch worktree of /repo HEAD outside /repo and /verif:
  (1) the demo passes on the unchanged tree, (2) the patch applies and compiles, (3) the demo fails with it,
  (4) the existing test suite still passes with it.
Confirmed seeds are written to seeded/<prop>-<x>/ (patch.diff, demo, meta.json)."""
import json, os, re, shutil, subprocess, sys
VERIF = '/verif'
INC = os.path.join(VERIF, 'seeded_incoming')
OUT = os.path.join(VERIF, 'seeded')
WT = '/tmp/seedw'
PKG = {'globset': 'globset', 'cli': 'grep-cli', 'ignore': 'ignore', 'searcher': 'grep-searcher', 'printer': 'grep-printer', 'regex': 'grep-regex', 'matcher': 'grep-matcher', 'core': 'ripgrep'}
ENV = dict(os.environ, CARGO_TARGET_DIR='/tmp/seedw_target', TMPDIR='/tmp/seedw_tmp', CARGO_NET_OFFLINE='true')

def sh(cmd, cwd=WT, timeout=3600):
    p = subprocess.run(cmd, cwd=cwd, env=ENV, shell=True, stdout=subprocess.PIPE, stderr=subprocess.STDOUT, text=True, timeout=timeout)
    return p.returncode, p.stdout

def summary(out):
    p = f = 0
    for m in re.finditer(r'test result: \w+\. (\d+) passed; (\d+) failed', out):
        p += int(m.group(1)); f += int(m.group(2))
    return p, f

def main():
    only = sys.argv[1:]
    os.makedirs('/tmp/seedw_tmp', exist_ok=True)
    subprocess.run('git -C /repo worktree remove --force %s' % WT, shell=True, stdout=subprocess.DEVNULL, stderr=subprocess.DEVNULL)
    subprocess.run('git -C /repo worktree add -q %s HEAD' % WT, shell=True, check=True)
    try:
        for prop in sorted(os.listdir(INC)):
            d = os.path.join(INC, prop)
            for pf in sorted(f for f in os.listdir(d) if f.endswith('.patch')):
                x = pf[:-len('.patch')]
                sid = '%s-%s' % (prop, x.replace('_bonus', ''))
                if only and sid not in only:
                    continue
                demo = os.path.join(d, 'demo_%s.rs' % x)
                if not os.path.exists(demo) and os.path.exists(os.path.join(d, 'demo_%s.sh' % x)):
                    # shell demo: takes the rg binary as $1
                    demo = os.path.join(d, 'demo_%s.sh' % x)
                    meta = {'id': sid, 'property': prop, 'patch': 'patch.diff', 'demo': os.path.basename(demo),
                            'demo_cmd': 'cargo build --offline && sh %s target/debug/rg' % os.path.basename(demo)}
                    sh('git checkout -q -- . && git clean -fdq crates')
                    rcb, outb = sh('cargo build --offline -j 8')
                    rc0, out0 = sh('sh %s /tmp/seedw_target/debug/rg' % demo)
                    meta['demo_without_patch'] = {'rc': rc0}
                    rca, outa = sh('git apply %s' % os.path.join(d, pf))
                    meta['applies'] = rca == 0
                    if rca == 0:
                        rcb, outb = sh('cargo build --offline -j 8')
                        rc1, out1 = sh('sh %s /tmp/seedw_target/debug/rg' % demo)
                        meta['demo_with_patch'] = {'rc': rc1, 'tail': out1[-300:]}
                        rc2, out2 = sh('cargo test --workspace --no-fail-fast --offline -j 8')
                        p2, f2 = summary(out2)
                        meta['suite_with_patch'] = {'rc': rc2, 'passed': p2, 'failed': f2}
                        ok = rc0 == 0 and rc1 != 0 and rc2 == 0 and f2 == 0
                        meta['confirmed'] = ok
                        print(sid, 'CONFIRMED' if ok else 'NOT CONFIRMED', meta['demo_without_patch'], {'rc': rc1}, meta['suite_with_patch'])
                    od = os.path.join(OUT, sid)
                    os.makedirs(od, exist_ok=True)
                    shutil.copy(os.path.join(d, pf), os.path.join(od, 'patch.diff'))
                    shutil.copy(demo, os.path.join(od, os.path.basename(demo)))
                    nn = 'notes_r2.md' if x in 'rst' and os.path.exists(os.path.join(d, 'notes_r2.md')) else 'notes.md'
                    if os.path.exists(os.path.join(d, nn)):
                        shutil.copy(os.path.join(d, nn), os.path.join(od, 'notes_from_author.md'))
                    mp = os.path.join(od, 'meta.json')
                    old = json.load(open(mp)) if os.path.exists(mp) else {}
                    old.update(meta)
                    json.dump(old, open(mp, 'w'), indent=1)
                    sys.stdout.flush()
                    continue
                if not os.path.exists(demo):
                    print(sid, 'no demo'); continue
                head = open(demo).read(3000)
                m = re.search(r'crates/(\w+)/tests/(\w+)\.rs', head)
                if not m:
                    print(sid, 'cannot find placement'); continue
                crate, tname = m.group(1), m.group(2)
                rel = 'crates/%s/tests/%s.rs' % (crate, tname)
                release = '--release' if '--release' in head else ''
                cmd = 'cargo test --offline -j 8 %s -p %s --test %s' % (release, PKG[crate], tname)
                meta = {'id': sid, 'property': prop, 'patch': 'patch.diff', 'demo': os.path.basename(demo),
                        'demo_placement': rel, 'demo_cmd': cmd}
                sh('git checkout -q -- . && git clean -fdq crates')
                os.makedirs(os.path.join(WT, 'crates', crate, 'tests'), exist_ok=True)
                shutil.copy(demo, os.path.join(WT, rel))
                rc0, out0 = sh(cmd)
                p0, f0 = summary(out0)
                meta['demo_without_patch'] = {'rc': rc0, 'passed': p0, 'failed': f0}
                rca, outa = sh('git apply %s' % os.path.join(d, pf))
                meta['applies'] = rca == 0
                if rca != 0:
                    meta['note'] = 'patch does not apply to /repo HEAD: ' + outa[-300:]
                    print(sid, 'PATCH DOES NOT APPLY'); 
                else:
                    rc1, out1 = sh(cmd)
                    p1, f1 = summary(out1)
                    meta['demo_with_patch'] = {'rc': rc1, 'passed': p1, 'failed': f1}
                    os.remove(os.path.join(WT, rel))
                    rc2, out2 = sh('cargo test --workspace --no-fail-fast --offline -j 8')
                    p2, f2 = summary(out2)
                    meta['suite_with_patch'] = {'rc': rc2, 'passed': p2, 'failed': f2}
                    ok = rc0 == 0 and f0 == 0 and p0 > 0 and rc1 != 0 and f1 > 0 and rc2 == 0 and f2 == 0
                    meta['confirmed'] = ok
                    print(sid, 'CONFIRMED' if ok else 'NOT CONFIRMED', meta['demo_without_patch'], meta['demo_with_patch'], meta['suite_with_patch'])
                notes = os.path.join(d, 'notes_r2.md' if x in 'rst' and os.path.exists(os.path.join(d, 'notes_r2.md')) else 'notes.md')
                od = os.path.join(OUT, sid)
                os.makedirs(od, exist_ok=True)
                shutil.copy(os.path.join(d, pf), os.path.join(od, 'patch.diff'))
                shutil.copy(demo, os.path.join(od, os.path.basename(demo)))
                if os.path.exists(notes):
                    shutil.copy(notes, os.path.join(od, 'notes_from_author.md'))
                mp = os.path.join(od, 'meta.json')
                old = json.load(open(mp)) if os.path.exists(mp) else {}
                old.update(meta)
                json.dump(old, open(mp, 'w'), indent=1)
                sys.stdout.flush()
    finally:
        subprocess.run('git -C /repo worktree remove --force %s' % WT, shell=True)
        shutil.rmtree('/tmp/seedw_target', ignore_errors=True)
        shutil.rmtree('/tmp/seedw_tmp', ignore_errors=True)

if __name__ == '__main__':
    main()
