// ===== TRUSTED (T-Matcher): the documented contract of grep_matcher::Matcher as a trait =====
// Every `ensures` below restates a sentence of the trait's documentation.  It is ASSUMED of
// every implementation (grep-regex's RegexMatcher included; establishing it is property C11).
//
// Ghost semantics: m_find_at(h, at) is "the leftmost match in haystack h starting at or after
// `at`, with look-around evaluated against all of h".
pub trait Matcher {
    type Error: std::fmt::Display;

    spec fn m_find_at(&self, h: Seq<u8>, at: int) -> Option<(int, int)>;
    /// "the pattern matches somewhere in h" as a predicate (== m_find_at(h, 0) is Some, see m_axioms)
    spec fn m_pred(&self) -> spec_fn(Seq<u8>) -> bool;
    /// the matcher promises that no match ever contains byte b
    spec fn m_excludes(&self, b: u8) -> bool;
    spec fn m_lt(&self) -> Option<LineTerminator>;
    spec fn m_nmb(&self) -> Option<ByteSet>;

    /// "Matches ... are guaranteed to satisfy m.start() >= at", "within the haystack";
    /// line_terminator(): "guaranteed to never be part of a match";
    /// non_matching_bytes(): "bytes that can never appear in a match".
    proof fn m_axioms(&self)
        ensures
            forall|h: Seq<u8>, at: int| #![trigger self.m_find_at(h, at)]
                self.m_find_at(h, at) matches Some((s, e)) ==> at <= s <= e <= h.len(),
            forall|h: Seq<u8>| #![trigger (self.m_pred())(h)]
                (self.m_pred())(h) == (self.m_find_at(h, 0) is Some),
            self.m_lt() matches Some(lt) ==> self.m_excludes(lt.byte_view()),
            self.m_nmb() matches Some(set) ==> forall|b: u8| set.has(b) ==> self.m_excludes(b),
    ;

    fn find(&self, haystack: &[u8]) -> (r: Result<Option<Match>, Self::Error>)
        ensures
            r matches Ok(o) ==> match self.m_find_at(haystack@, 0) {
                None => o is None,
                Some((s, e)) => o matches Some(m) && m.s() == s && m.e() == e,
            },
    ;

    fn find_at(&self, haystack: &[u8], at: usize) -> (r: Result<Option<Match>, Self::Error>)
        requires at <= haystack@.len(),
        ensures
            r matches Ok(o) ==> match self.m_find_at(haystack@, at as int) {
                None => o is None,
                Some((s, e)) => o matches Some(m) && m.s() == s && m.e() == e,
            },
    ;

    fn is_match(&self, haystack: &[u8]) -> (r: Result<bool, Self::Error>)
        ensures r matches Ok(b) ==> b == (self.m_pred())(haystack@),
    ;

    fn shortest_match(&self, haystack: &[u8]) -> (r: Result<Option<usize>, Self::Error>)
        ensures r matches Ok(o) ==> (o is Some) == (self.m_pred())(haystack@),
    ;

    fn non_matching_bytes(&self) -> (r: Option<&ByteSet>)
        ensures
            match r { None => self.m_nmb() is None, Some(bs) => self.m_nmb() == Some(*bs) },
    ;

    fn line_terminator(&self) -> (r: Option<LineTerminator>)
        ensures r == self.m_lt(),
    ;

    /// "If no match could be found at the beginning of a line ... returns None.  Candidate(i):
    /// a position in a line that may contain a match (never a false negative: no earlier line
    /// matches).  Confirmed(i): a position in a line that does contain a match."
    /// Stated for every line terminator lt whose byte the matcher excludes.
    fn find_candidate_line(&self, haystack: &[u8]) -> (r: Result<Option<LineMatchKind>, Self::Error>)
        ensures
            r matches Ok(o) ==> forall|lt: LineTerminator| #![trigger self.m_excludes(lt.byte_view())]
                self.m_excludes(lt.byte_view()) ==> candidate_ok(self.m_pred(), haystack@, lt, o),
    ;
}

/// line [s,e) of buffer b "matches" under line terminator lt: the predicate p ("the pattern
/// matches somewhere in") holds of the line's content with its terminator removed
#[verifier::opaque]
pub open spec fn lm(p: spec_fn(Seq<u8>) -> bool, b: Seq<u8>, lt: LineTerminator, s: int, e: int) -> bool {
    p(strip(b.subrange(s, e), lt))
}

/// no line of b that lies wholly inside [lo, hi) matches
pub open spec fn no_match_in(p: spec_fn(Seq<u8>) -> bool, b: Seq<u8>, lt: LineTerminator, lo: int, hi: int) -> bool {
    forall|s: int, e: int| #![trigger one_line(b, lt.byte_view(), s, e)]
        lo <= s && e <= hi && one_line(b, lt.byte_view(), s, e) ==> !lm(p, b, lt, s, e)
}

pub open spec fn candidate_ok(p: spec_fn(Seq<u8>) -> bool, h: Seq<u8>, lt: LineTerminator, o: Option<LineMatchKind>) -> bool {
    let t = lt.byte_view();
    match o {
        None => no_match_in(p, h, lt, 0, h.len() as int),
        // "a position in a line": the candidate's line is not the empty range after a final terminator
        Some(LineMatchKind::Candidate(i)) => i <= h.len() && (i < h.len() || (i > 0 && h[i - 1] != t))
            && no_match_in(p, h, lt, 0, line_start_of(h, t, i as int)),
        Some(LineMatchKind::Confirmed(i)) => i <= h.len()
            && no_match_in(p, h, lt, 0, line_start_of(h, t, i as int))
            && ({
                let s = line_start_of(h, t, i as int);
                let e = line_end_from(h, t, i as int);
                s < e ==> lm(p, h, lt, s, e)
            }),
    }
}

impl<'a, M: Matcher> Matcher for &'a M {
    type Error = M::Error;

    open spec fn m_find_at(&self, h: Seq<u8>, at: int) -> Option<(int, int)> { (**self).m_find_at(h, at) }
    open spec fn m_pred(&self) -> spec_fn(Seq<u8>) -> bool { (**self).m_pred() }
    open spec fn m_excludes(&self, b: u8) -> bool { (**self).m_excludes(b) }
    open spec fn m_lt(&self) -> Option<LineTerminator> { (**self).m_lt() }
    open spec fn m_nmb(&self) -> Option<ByteSet> { (**self).m_nmb() }

    proof fn m_axioms(&self) { (**self).m_axioms(); }

    #[verifier::external_body]
    fn find(&self, haystack: &[u8]) -> (r: Result<Option<Match>, Self::Error>) { unimplemented!() }
    #[verifier::external_body]
    fn find_at(&self, haystack: &[u8], at: usize) -> (r: Result<Option<Match>, Self::Error>) { unimplemented!() }
    #[verifier::external_body]
    fn is_match(&self, haystack: &[u8]) -> (r: Result<bool, Self::Error>) { unimplemented!() }
    #[verifier::external_body]
    fn shortest_match(&self, haystack: &[u8]) -> (r: Result<Option<usize>, Self::Error>) { unimplemented!() }
    #[verifier::external_body]
    fn non_matching_bytes(&self) -> (r: Option<&ByteSet>) { unimplemented!() }
    #[verifier::external_body]
    fn line_terminator(&self) -> (r: Option<LineTerminator>) { unimplemented!() }
    #[verifier::external_body]
    fn find_candidate_line(&self, haystack: &[u8]) -> (r: Result<Option<LineMatchKind>, Self::Error>) { unimplemented!() }
}
