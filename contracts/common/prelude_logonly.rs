// `log::warn!` etc.: assumed to have no effect on results
pub mod log {
    macro_rules! warn_ { ($($t:tt)*) => {}; }
    pub(crate) use warn_ as warn;
}
