#!/bin/bash
# import_round2.sh <PID>: move a round-2 sub-agent's deliverables (/tmp/mut2_<PID>/_out) into seeded_incoming/<PID>/ as seeds r, s, t
set -e
P=$1; O=/tmp/mut${R:-2}_$P/_out; D=/verif/seeded_incoming/$P; mkdir -p $D
i=0; for x in a b c; do
  L=$(echo ${LETTERS:-r s t} | cut -d' ' -f$((i+1))); i=$((i+1))
  [ -f $O/$x.patch ] || continue
  cp $O/$x.patch $D/$L.patch
  for e in rs sh; do [ -f $O/demo_$x.$e ] && cp $O/demo_$x.$e $D/demo_$L.$e; done
done
cp $O/notes.md $D/notes_r${R:-2}.md 2>/dev/null || true
git -C /repo worktree remove --force /tmp/mut${R:-2}_$P; rm -rf /tmp/mut${R:-2}_${P}_tmp
ls $D
