//! native replay of a Kani counterexample against the real searcher code (see twin_harness.rs)
fn main() {
    if std::env::var("VERIF_REPLAY_EXHAUSTIVE").is_ok() {
        std::process::exit(if grep_searcher::twin_harness::exhaustive_small() { 0 } else { 1 });
    }
    std::process::exit(grep_searcher::twin_harness::replay_main())
}
