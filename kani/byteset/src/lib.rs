//! C01 (non_matching_bytes): grep_matcher::ByteSet behaves as a set of bytes.  The real crate is a path
//! dependency; ByteSet's state is reached through its public API only, so an arbitrary set is built
//! from an arbitrary membership word (all 2^256 sets would need private access; instead every
//! operation is checked on a set obtained from `empty()`/`full()` by adding/removing symbolic bytes,
//! which covers every bit position and both polarities).
#![allow(dead_code)]
use grep_matcher::ByteSet;

#[cfg(kani)]
mod proofs {
    use super::*;
    fn some_set() -> (ByteSet, u8, bool, u8, bool) {
        // start from empty or full, then add one symbolic byte and remove another
        let full: bool = kani::any();
        let mut s = if full { ByteSet::full() } else { ByteSet::empty() };
        let a: u8 = kani::any();
        let r: u8 = kani::any();
        let do_add: bool = kani::any();
        let do_rem: bool = kani::any();
        if do_add { s.add(a); }
        if do_rem { s.remove(r); }
        (s, a, do_add, r, do_rem)
    }
    /// loop-free, full domain of every symbolic input: complete
    #[kani::proof]
    fn byteset_add_remove_contains_complete() {
        let full: bool = kani::any();
        let mut s = if full { ByteSet::full() } else { ByteSet::empty() };
        let q: u8 = kani::any();
        assert!(s.contains(q) == full);
        let a: u8 = kani::any();
        s.add(a);
        assert!(s.contains(a));
        assert!(s.contains(q) == (full || q == a));
        let r: u8 = kani::any();
        s.remove(r);
        assert!(!s.contains(r));
        assert!(s.contains(q) == ((full || q == a) && q != r));
    }
    /// add_all / remove_all over every inclusive range of at most 8 bytes (bounded; the full 256-iteration
    /// unwinding did not finish in 30 minutes)
    #[kani::proof]
    #[kani::unwind(10)]
    fn byteset_ranges_span8() {
        let lo: u8 = kani::any();
        let hi: u8 = kani::any();
        kani::assume(hi >= lo && hi - lo < 8);
        let q: u8 = kani::any();
        let mut s = ByteSet::empty();
        s.add_all(lo, hi);
        assert!(s.contains(q) == (lo <= q && q <= hi));
        let mut f = ByteSet::full();
        f.remove_all(lo, hi);
        assert!(f.contains(q) == !(lo <= q && q <= hi));
    }
}

#[cfg(test)]
mod tests {
    use super::*;
    #[test]
    fn smoke() {
        let mut s = ByteSet::empty();
        s.add(b'\n');
        assert!(s.contains(b'\n') && !s.contains(b'a'));
    }
}
