//! C12: the real `file_name` / `file_name_ext` of crates/globset/src/pathutil.rs (cut out of the file
//! mechanically on every run into src/extracted.rs) against their documented meaning.
#![allow(dead_code, unused_imports)]
use std::borrow::Cow;
use bstr::{ByteSlice, ByteVec};
include!("extracted.rs");

/// What the property needs of `file_name` (and, since fix c-dotdot, what its doc comment says): the text
/// after the last `/`, unless that text is empty.  The set strategies (basename literal, extension,
/// required extension) look their literal up in this value while the single-glob matcher runs a regex
/// over the whole path, so the two agree only if the basename is the purely textual final component --
/// including `.` and `..` (glob `?.` matches the path `..`).
pub fn spec_file_name(p: &[u8]) -> Option<&[u8]> {
    let mut s = p.len();
    while s > 0 && p[s - 1] != b'/' {
        s -= 1;
    }
    let name = &p[s..];
    if name.is_empty() { None } else { Some(name) }
}

/// Documented meaning of file_name_ext: None for the empty name or a name without `.`, otherwise the
/// part starting at the final `.`.
pub fn spec_ext(n: &[u8]) -> Option<&[u8]> {
    let mut s = n.len();
    while s > 0 {
        s -= 1;
        if n[s] == b'.' {
            return Some(&n[s..]);
        }
    }
    None
}

pub fn file_name_agrees(p: &[u8]) -> bool {
    let c: Cow<[u8]> = Cow::Borrowed(p);
    match (file_name(&c), spec_file_name(p)) {
        (None, None) => true,
        (Some(a), Some(b)) => &*a == b,
        _ => false,
    }
}

pub fn ext_agrees(p: &[u8]) -> bool {
    let c: Cow<[u8]> = Cow::Borrowed(p);
    match (file_name_ext(&c), spec_ext(p)) {
        (None, None) => true,
        (Some(a), Some(b)) => &*a == b,
        _ => false,
    }
}

#[cfg(kani)]
mod proofs {
    use super::*;
    #[kani::proof]
    #[kani::unwind(7)]
    fn file_name_matches_doc_len5() {
        let t: [u8; 5] = kani::any();
        let n: usize = kani::any();
        kani::assume(n <= 5);
        assert!(file_name_agrees(&t[..n]));
    }
    #[kani::proof]
    #[kani::unwind(7)]
    fn file_name_ext_matches_doc_len5() {
        let t: [u8; 5] = kani::any();
        let n: usize = kani::any();
        kani::assume(n <= 5);
        assert!(ext_agrees(&t[..n]));
    }
}

#[cfg(test)]
mod tests {
    use super::*;
    #[test]
    fn smoke() {
        assert!(file_name_agrees(b"a/b"));
        assert!(file_name_agrees(b"a/.."));
        assert!(file_name_agrees(b""));
        assert!(ext_agrees(b"a.rs"));
        assert!(ext_agrees(b".rs"));
    }
    #[test]
    fn replay() {
        if let Ok(hex) = std::env::var("VERIF_REPLAY_HEX") {
            let bytes: Vec<u8> = (0..hex.len() / 2).map(|i| u8::from_str_radix(&hex[2 * i..2 * i + 2], 16).unwrap()).collect();
            assert!(file_name_agrees(&bytes), "file_name({:?}) disagrees with its documented meaning", String::from_utf8_lossy(&bytes));
            assert!(ext_agrees(&bytes), "file_name_ext({:?}) disagrees with its documented meaning", String::from_utf8_lossy(&bytes));
        }
    }
}
