#!/usr/bin/env python3
"""replay.py <replay.json>: show the failed obligation and, when the file carries a concrete
counterexample, re-execute it natively against the real code in /repo."""
import json, os, sys
HERE = os.path.dirname(os.path.abspath(__file__))
sys.path.insert(0, HERE)
def main():
    rec = json.load(open(sys.argv[1]))
    print('property   : %s' % rec['property'])
    print('obligation : %s' % rec['obligation'])
    print((rec.get('verifier_output') or '')[:4000])
    cex = rec.get('counterexample') or {}
    if cex.get('found'):
        import kanirun
        return kanirun.replay_native(cex)
    print('no concrete input recorded (%s)' % cex.get('note', ''))
    return 1
if __name__ == '__main__':
    sys.exit(main())
