// ===== TRUSTED (T-std): `&mut v[range]` on a Vec is the mutable sub-slice of the Vec's contents.
// vstd specifies this for slices (SliceIndexSpec::index_mut_postcondition) but has no specification
// for `<Vec<T, A> as IndexMut<I>>::index_mut`; std implements it as `IndexMut::index_mut(&mut **self, index)`.
pub assume_specification<T, I, A>[ <Vec<T, A> as std::ops::IndexMut<I>>::index_mut ](v: &mut Vec<T, A>, i: I) -> (r: &mut <Vec<T, A> as std::ops::Index<I>>::Output)
    where I: std::slice::SliceIndex<[T]>, A: std::alloc::Allocator,
    ensures
        exists|so: &[T], sf: &[T]| so@ == old(v)@ && sf@ == final(v)@
            && #[trigger] i.index_mut_postcondition(so, sf, r, final(r)),
;
