//! C12, bounded NATIVE enumeration (not Kani, not a proof): the real `globset` crate of /repo (path
//! dependency, nothing restated) answers for a SET of globs exactly like its member globs one by one.
//!
//!   mode `single` : every glob of up to VERIF_GLOB_TOKENS tokens x 16 option combinations, alone in a set,
//!                   against every path of the path pool: set.matches == [0] iff matcher.is_match
//!   mode `pairs`  : every ordered pair from a smaller glob pool in one set: set.matches == indices of
//!                   the globs that match individually (index merging, shared strategy tables)
//!   mode `alternates`: a glob with one level of alternates matches iff one of its textual expansions does
//!                   ("{a,b} matches a or b where a and b are arbitrary glob patterns"), same matcher both sides
//!
//! The oracle of `single`/`pairs` is the property's own statement (no hand-written semantics).
use globset::{Candidate, Glob, GlobBuilder, GlobMatcher, GlobSet, GlobSetBuilder};
use std::ffi::OsStr;
use std::os::unix::ffi::OsStrExt;
use std::path::Path;

const TOKENS: &[&str] = &["a", "b", ".", "/", "-", "A", "?", "*", "**", "[ab]", "[!a]", "{a,b}", "{a,}", "\\*"];
const SMALL_TOKENS: &[&str] = &["a", "b", "*", "/", ".", "**"];
const PATH_ALPHA: &[u8] = b"ab./-A";

fn build(glob: &str, opts: u32) -> Option<Glob> {
    GlobBuilder::new(glob)
        .literal_separator(opts & 1 != 0)
        .case_insensitive(opts & 2 != 0)
        .backslash_escape(opts & 4 != 0)
        .empty_alternates(opts & 8 != 0)
        .build()
        .ok()
}

fn words(alpha: &[&str], max: usize) -> Vec<String> {
    let mut out = vec![];
    let mut cur: Vec<String> = vec![String::new()];
    for _ in 0..max {
        let mut next = vec![];
        for w in &cur {
            for t in alpha {
                next.push(format!("{}{}", w, t));
            }
        }
        out.extend(next.iter().cloned());
        cur = next;
    }
    out
}

fn paths(max: usize) -> Vec<Vec<u8>> {
    let mut out: Vec<Vec<u8>> = vec![vec![]];
    let mut cur: Vec<Vec<u8>> = vec![vec![]];
    for _ in 0..max {
        let mut next = vec![];
        for w in &cur {
            for &b in PATH_ALPHA {
                let mut v = w.clone();
                v.push(b);
                next.push(v);
            }
        }
        out.extend(next.iter().cloned());
        cur = next;
    }
    // a few byte paths outside the alphabet (not UTF-8, glob meta characters, backslash, a newline byte)
    let extra: &[u8] = &[0xFF, b'*', b'\\', b'a', b'/', b'.', b'\n'];
    for &x in extra {
        for &y in extra {
            out.push(vec![x, y]);
            for &z in extra {
                out.push(vec![x, y, z]);
            }
        }
    }
    out.sort();
    out.dedup();
    out
}

fn hex(b: &[u8]) -> String {
    b.iter().map(|x| format!("{:02x}", x)).collect()
}
fn unhex(h: &str) -> Vec<u8> {
    (0..h.len() / 2).map(|i| u8::from_str_radix(&h[2 * i..2 * i + 2], 16).unwrap()).collect()
}

#[derive(Clone, Debug, PartialEq, Eq, PartialOrd, Ord)]
struct Failure {
    key: (usize, u32, usize),
    globs: Vec<String>,
    opts: u32,
    path: Vec<u8>,
    what: String,
}

fn report(f: &Failure) {
    println!(
        "FAILING CASE globset globs={:?} literal_separator={} case_insensitive={} backslash_escape={} empty_alternates={} path={:?} (bytes {}): {}",
        f.globs, f.opts & 1 != 0, f.opts & 2 != 0, f.opts & 4 != 0, f.opts & 8 != 0,
        String::from_utf8_lossy(&f.path), hex(&f.path), f.what
    );
    println!(
        "VERIF_REPLAY_GLOBS={} VERIF_REPLAY_OPTS={} VERIF_REPLAY_PATH={}",
        f.globs.iter().map(|g| hex(g.as_bytes())).collect::<Vec<_>>().join(","),
        f.opts,
        if f.path.is_empty() { "-".to_string() } else { hex(&f.path) }
    );
}

/// the property's statement for one set and one path; None = agrees
fn check_set(ms: &[GlobMatcher], set: &GlobSet, c: &Candidate<'_>) -> Option<String> {
    let want: Vec<usize> = ms.iter().enumerate().filter(|(_, m)| m.is_match_candidate(c)).map(|(i, _)| i).collect();
    let mut got = set.matches_candidate(c);
    got.sort();
    if got != want {
        return Some(format!("GlobSet::matches gives {:?}, the globs one by one give {:?}", got, want));
    }
    // "into is cleared before matching begins": hand over a vector that still holds an old answer
    let mut into = vec![usize::MAX, 7];
    set.matches_candidate_into(c, &mut into);
    let mut stale = vec![usize::MAX, 7];
    GlobSet::empty().matches_candidate_into(c, &mut stale);
    if !stale.is_empty() {
        return Some(format!("GlobSet::empty().matches_into leaves stale entries {:?} in the caller's vector", stale));
    }
    into.sort();
    if into != want {
        return Some(format!("GlobSet::matches_into gives {:?}, the globs one by one give {:?}", into, want));
    }
    if set.is_match_candidate(c) != !want.is_empty() {
        return Some(format!("GlobSet::is_match gives {}, the globs one by one give {:?}", set.is_match_candidate(c), want));
    }
    None
}

fn set_of(globs: &[Glob]) -> GlobSet {
    let mut b = GlobSetBuilder::new();
    for g in globs {
        b.add(g.clone());
    }
    b.build().expect("a set of valid globs builds")
}

fn run_parallel<F: Fn(usize) -> Option<Failure> + Sync>(n: usize, f: F) -> Option<Failure> {
    let threads = std::thread::available_parallelism().map(|x| x.get()).unwrap_or(4).min(16);
    let next = std::sync::atomic::AtomicUsize::new(0);
    let best: std::sync::Mutex<Option<Failure>> = std::sync::Mutex::new(None);
    std::thread::scope(|s| {
        for _ in 0..threads {
            s.spawn(|| loop {
                let i = next.fetch_add(1, std::sync::atomic::Ordering::SeqCst);
                if i >= n {
                    break;
                }
                if let Some(ref b) = *best.lock().unwrap() {
                    if b.key.0 < i {
                        break;
                    }
                }
                if let Some(fl) = f(i) {
                    let mut b = best.lock().unwrap();
                    if b.as_ref().map_or(true, |old| fl.key < old.key) {
                        *b = Some(fl);
                    }
                }
            });
        }
    });
    best.into_inner().unwrap()
}

fn mode_single(max_tokens: usize, max_path: usize) -> Option<Failure> {
    let globs = words(TOKENS, max_tokens);
    let ps = paths(max_path);
    let n = globs.len();
    eprintln!("single: {} globs x 16 option combinations x {} paths", n, ps.len());
    run_parallel(n, |gi| {
        let cands: Vec<Candidate<'_>> = ps.iter().map(|p| Candidate::new(Path::new(OsStr::from_bytes(p)))).collect();
        for opts in 0..16u32 {
            let g = match build(&globs[gi], opts) {
                Some(g) => g,
                None => continue,
            };
            let ms = [g.compile_matcher()];
            let set = set_of(&[g]);
            for (pi, c) in cands.iter().enumerate() {
                if let Some(what) = check_set(&ms, &set, c) {
                    return Some(Failure { key: (gi, opts, pi), globs: vec![globs[gi].clone()], opts, path: ps[pi].clone(), what });
                }
            }
        }
        None
    })
}

fn mode_pairs(max_tokens: usize, max_path: usize) -> Option<Failure> {
    let mut pool = words(TOKENS, 2);
    pool.extend(words(SMALL_TOKENS, max_tokens.min(3)).into_iter().filter(|w| w.len() > 2 || !pool_contains(w)));
    if max_tokens >= 4 {
        // longer literals in prefix / suffix shape (one literal may sit inside another): lit*, lit/**, *lit
        for lit in words(&["a", "b", "/"], 3) {
            pool.push(format!("{}*", lit));
            pool.push(format!("{}/**", lit));
            pool.push(format!("*{}", lit));
        }
    }
    pool.sort();
    pool.dedup();
    let ps = paths(max_path);
    let n = pool.len();
    eprintln!("pairs: {} globs (ordered pairs) x 4 option combinations x {} paths", n, ps.len());
    run_parallel(n, |i| {
        let cands: Vec<Candidate<'_>> = ps.iter().map(|p| Candidate::new(Path::new(OsStr::from_bytes(p)))).collect();
        for opts in [0u32, 1, 2, 3] {
            let g1 = match build(&pool[i], opts) {
                Some(g) => g,
                None => continue,
            };
            let m1 = g1.compile_matcher();
            for j in 0..n {
                let g2 = match build(&pool[j], opts) {
                    Some(g) => g,
                    None => continue,
                };
                let ms = [m1.clone(), g2.compile_matcher()];
                let set = set_of(&[g1.clone(), g2]);
                for (pi, c) in cands.iter().enumerate() {
                    if let Some(what) = check_set(&ms, &set, c) {
                        return Some(Failure { key: (i, opts, j * cands.len() + pi), globs: vec![pool[i].clone(), pool[j].clone()], opts, path: ps[pi].clone(), what });
                    }
                }
            }
        }
        None
    })
}
fn pool_contains(_w: &str) -> bool {
    false
}

/// "`{a,b}` matches `a` or `b` where `a` and `b` are arbitrary glob patterns": a glob with one level of
/// alternates matches a path iff one of its textual expansions does (the real matcher on both sides)
fn mode_alternates(max_path: usize) -> Option<Failure> {
    const BR: &[&str] = &["a", "/", "*", "**"];
    let branches = words(BR, 3);
    let ps = paths(max_path);
    let n = branches.len();
    eprintln!("alternates: {} x {} branch pairs x 2 prefixes x 2 suffixes x literal_separator x {} paths", n, n, ps.len());
    run_parallel(n, |i| {
        let cands: Vec<Candidate<'_>> = ps.iter().map(|p| Candidate::new(Path::new(OsStr::from_bytes(p)))).collect();
        for j in 0..n {
            for pre in ["", "b/"] { for suf in ["", "/b"] { for opts in [0u32, 1] {
                let alt = format!("{}{{{},{}}}{}", pre, branches[i], branches[j], suf);
                // the glob `**` on its own is a documented special case ("match everything") that a branch `**`
                // of an alternation is not: such expansions are not compared
                if format!("{}{}{}", pre, branches[i], suf) == "**" || format!("{}{}{}", pre, branches[j], suf) == "**" { continue; }
                // `**` is documented for three positions only (`**/` at the start, `/**` at the end, `/**/`
                // inside).  How a `**` whose slashes lie OUTSIDE the braces behaves is not documented, so only
                // branches whose every `**` has its recursive form inside the branch itself are compared:
                // preceded by `/` in the branch, and followed by `/` in the branch or ending the whole glob
                let inside = |b: &str| -> bool {
                    let bytes = b.as_bytes();
                    let mut k = 0;
                    while k + 1 < bytes.len() + 1 && k + 2 <= bytes.len() {
                        if &bytes[k..k + 2] == b"**" {
                            let before_ok = k > 0 && bytes[k - 1] == b'/';
                            let after_ok = if k + 2 < bytes.len() { bytes[k + 2] == b'/' } else { suf.is_empty() };
                            if !(before_ok && after_ok) { return false; }
                            k += 2;
                        } else { k += 1; }
                    }
                    true
                };
                if !inside(&branches[i]) || !inside(&branches[j]) { continue; }
                if std::env::var("VERIF_GLOB_ALL").is_ok() {
                    if let (Some(a), Some(x), Some(y)) = (build(&alt, opts), build(&format!("{}{}{}", pre, branches[i], suf), opts), build(&format!("{}{}{}", pre, branches[j], suf), opts)) {
                        let (ma, mx, my) = (a.compile_matcher(), x.compile_matcher(), y.compile_matcher());
                        if let Some((pi, _)) = cands.iter().enumerate().find(|(_, c)| ma.is_match_candidate(c) != (mx.is_match_candidate(c) || my.is_match_candidate(c))) {
                            println!("ALL alt={:?} opts={} path={:?} alt={} x={} y={}", alt, opts, String::from_utf8_lossy(&ps[pi]), ma.is_match_candidate(&cands[pi]), mx.is_match_candidate(&cands[pi]), my.is_match_candidate(&cands[pi]));
                        }
                    }
                    continue;
                }
                let (ga, gx, gy) = match (build(&alt, opts), build(&format!("{}{}{}", pre, branches[i], suf), opts), build(&format!("{}{}{}", pre, branches[j], suf), opts)) {
                    (Some(a), Some(x), Some(y)) => (a, x, y),
                    _ => continue,
                };
                let (ma, mx, my) = (ga.compile_matcher(), gx.compile_matcher(), gy.compile_matcher());
                for (pi, c) in cands.iter().enumerate() {
                    let (got, want) = (ma.is_match_candidate(c), mx.is_match_candidate(c) || my.is_match_candidate(c));
                    if got != want {
                        return Some(Failure { key: (i, opts, j * 100000 + pi), globs: vec![alt.clone(), format!("{}{}{}", pre, branches[i], suf), format!("{}{}{}", pre, branches[j], suf)], opts, path: ps[pi].clone(),
                            what: format!("the glob with alternates (first) matches = {}, its two expansions match = {} / {}", got, mx.is_match_candidate(c), my.is_match_candidate(c)) });
                    }
                }
            }}}
        }
        None
    })
}

fn replay() -> i32 {
    let globs: Vec<String> = std::env::var("VERIF_REPLAY_GLOBS").unwrap().split(',').map(|h| String::from_utf8(unhex(h)).unwrap()).collect();
    let opts: u32 = std::env::var("VERIF_REPLAY_OPTS").unwrap().parse().unwrap();
    let p = std::env::var("VERIF_REPLAY_PATH").unwrap();
    let path = if p == "-" { vec![] } else { unhex(&p) };
    if std::env::var("VERIF_GLOB_MODE").map(|m| m == "alternates").unwrap_or(false) {
        let ms: Vec<GlobMatcher> = globs.iter().map(|g| build(g, opts).expect("replayed glob is valid").compile_matcher()).collect();
        let c = Candidate::new(Path::new(OsStr::from_bytes(&path)));
        let (got, want) = (ms[0].is_match_candidate(&c), ms[1].is_match_candidate(&c) || ms[2].is_match_candidate(&c));
        println!("replay: {:?} matches {:?} = {}, expansions {:?} / {:?} = {} / {}", globs[0], String::from_utf8_lossy(&path), got, globs[1], globs[2], ms[1].is_match_candidate(&c), ms[2].is_match_candidate(&c));
        return if got != want { 1 } else { 0 };
    }
    let gs: Vec<Glob> = globs.iter().map(|g| build(g, opts).expect("replayed glob is valid")).collect();
    let ms: Vec<GlobMatcher> = gs.iter().map(|g| g.compile_matcher()).collect();
    let set = set_of(&gs);
    let c = Candidate::new(Path::new(OsStr::from_bytes(&path)));
    match check_set(&ms, &set, &c) {
        Some(what) => {
            report(&Failure { key: (0, 0, 0), globs, opts, path, what });
            1
        }
        None => {
            println!("replayed case agrees");
            0
        }
    }
}

fn main() {
    if std::env::var("VERIF_REPLAY_GLOBS").is_ok() {
        std::process::exit(replay());
    }
    let mode = std::env::var("VERIF_GLOB_MODE").unwrap_or_else(|_| "single".to_string());
    let toks: usize = std::env::var("VERIF_GLOB_TOKENS").ok().and_then(|s| s.parse().ok()).unwrap_or(3);
    let plen: usize = std::env::var("VERIF_GLOB_PATHLEN").ok().and_then(|s| s.parse().ok()).unwrap_or(4);
    let r = match mode.as_str() {
        "single" => mode_single(toks, plen),
        "pairs" => mode_pairs(toks, plen),
        "alternates" => mode_alternates(plen),
        other => panic!("unknown mode {}", other),
    };
    match r {
        Some(f) => {
            report(&f);
            std::process::exit(1);
        }
        None => println!("globset twin mode={} tokens<={} pathlen<={}: all cases agree", mode, toks, plen),
    }
}
