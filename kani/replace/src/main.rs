//! C19, bounded NATIVE enumeration (not Kani, not a proof): the real printer + searcher + matcher crates of
//! /repo (path dependencies, nothing restated) print, with a replacement, exactly what the regex library's
//! `replace_all` gives for each matching line (`Regex::replace_all` / `Captures::expand` of the `regex`
//! crate are the oracle: the property's own statement).
//!
//!   patterns : a pool with optional, nested, named and empty-matching groups and anchors
//!   templates: every sequence of <= 2 tokens over the reference grammar ($1 $2 $0 $n ${n} ${1} ${1}a $1a $$ $ x),
//!              and of <= 3 tokens for the inputs of <= 3 bytes
//!   inputs   : every text of <= VERIF_REPLACE_LEN units over {a, b, ' ', \n, U+00E9 (two bytes)} (default 5)
//!   modes    : plain, --only-matching, -U (multi-line searcher), --crlf is not enumerated
//! (Braced references with a non-word name are the listed known finding of find_cap_ref and are not used.)
//! VERIF_REPLACE_CLASS=known runs ONLY the inputs of the listed known finding (see `known_class`), the
//! default run everything else, so that any other disagreement is still reported.
use grep_printer::StandardBuilder;
use grep_regex::RegexMatcherBuilder;
use grep_searcher::SearcherBuilder;
use termcolor::NoColor;

const PATTERNS: &[&str] = &[
    "(a)(b)?",
    "(?P<n>a+)|(b)",
    "((a)|b)+",
    "(a*)",
    "(?P<n>a)(?P<m>b*)",
    "^(a)",
    "(b)$",
    r"\b(a+)\b",
    "(a)|(?P<n>)",
    "(?P<n>b)?a",
    "(a)( )(?P<n>b)",
    "()",
];
const TOKENS: &[&str] = &["$1", "$2", "$0", "$n", "${n}", "${1}", "${1}a", "$1a", "$$", "$", "x"];
const ALPHA: &[u8] = b"ab \n";

fn words(max: usize) -> Vec<String> {
    let mut out = vec![String::new()];
    let mut cur = vec![String::new()];
    for _ in 0..max {
        let mut next = vec![];
        for w in &cur {
            for t in TOKENS {
                next.push(format!("{}{}", w, t));
            }
        }
        out.extend(next.iter().cloned());
        cur = next;
    }
    out
}

fn inputs(max: usize) -> Vec<Vec<u8>> {
    // units: a, b, space, newline and one two-byte character (empty matches fall inside it, byte-wise)
    let units: [&[u8]; 5] = [b"a", b"b", b" ", b"\n", "\u{e9}".as_bytes()];
    let mut out: Vec<Vec<u8>> = vec![vec![]];
    let mut cur: Vec<Vec<u8>> = vec![vec![]];
    for _ in 0..max {
        let mut next = vec![];
        for w in &cur {
            for u in units {
                let mut v = w.clone();
                v.extend_from_slice(u);
                next.push(v);
            }
        }
        out.extend(next.iter().cloned());
        cur = next;
    }
    out
}

/// what ripgrep prints (real code)
fn actual(pattern: &str, template: &[u8], input: &[u8], mode: u32) -> Result<Vec<u8>, String> {
    // the matcher exactly as crates/core/flags/hiargs.rs configures it: `^`/`$` are line anchors; the line
    // terminator is told to the regex unless -U is given
    let mut mb = RegexMatcherBuilder::new();
    mb.multi_line(true);
    if mode != 2 {
        mb.line_terminator(Some(b'\n'));
    }
    let matcher = mb.build(pattern).map_err(|e| e.to_string())?;
    let mut printer = StandardBuilder::new()
        .replacement(Some(template.to_vec()))
        .only_matching(mode == 1)
        .build(NoColor::new(vec![]));
    let mut searcher = SearcherBuilder::new().line_number(false).multi_line(mode == 2).build();
    searcher
        .search_slice(&matcher, input, printer.sink(&matcher))
        .map_err(|e| e.to_string())?;
    Ok(printer.into_inner().into_inner())
}

/// the property's statement: the regex library's replace-all of each matching line
fn expected(re: &regex::bytes::Regex, template: &[u8], input: &[u8], mode: u32) -> Vec<u8> {
    let mut out = vec![];
    let mut start = 0;
    while start < input.len() {
        let end = input[start..].iter().position(|&b| b == b'\n').map(|i| start + i + 1).unwrap_or(input.len());
        let line = &input[start..end];
        let body = if line.ends_with(b"\n") { &line[..line.len() - 1] } else { line };
        if re.is_match(body) {
            if mode == 1 {
                for caps in re.captures_iter(body) {
                    caps.expand(template, &mut out);
                    out.push(b'\n');
                }
            } else {
                out.extend_from_slice(&re.replace_all(body, template));
                out.push(b'\n');
            }
        }
        start = end;
    }
    out
}

fn hex(b: &[u8]) -> String {
    b.iter().map(|x| format!("{:02x}", x)).collect()
}
fn unhex(h: &str) -> Vec<u8> {
    if h == "-" { return vec![]; }
    (0..h.len() / 2).map(|i| u8::from_str_radix(&h[2 * i..2 * i + 2], 16).unwrap()).collect()
}

/// the inputs of the listed known finding: -U, the input's final line has no terminator, matches, and its
/// replacement is the empty text (ripgrep then prints nothing for that line instead of an empty line)
fn known_class(re: &regex::bytes::Regex, template: &[u8], input: &[u8], mode: u32) -> bool {
    if mode != 2 || input.is_empty() || input.ends_with(b"\n") {
        return false;
    }
    let start = input.iter().rposition(|&b| b == b'\n').map(|i| i + 1).unwrap_or(0);
    let body = &input[start..];
    re.is_match(body) && re.replace_all(body, template).is_empty()
}

fn check(pi: usize, re: &regex::bytes::Regex, template: &[u8], input: &[u8], mode: u32) -> Option<String> {
    let only_known = std::env::var("VERIF_REPLACE_CLASS").map(|v| v == "known").unwrap_or(false);
    if known_class(re, template, input, mode) != only_known {
        return None;
    }
    let want = expected(re, template, input, mode);
    match actual(PATTERNS[pi], template, input, mode) {
        Ok(got) if got == want => None,
        Ok(got) => Some(format!("ripgrep prints {:?}, the regex library's replace-all of the matching lines is {:?}",
            String::from_utf8_lossy(&got), String::from_utf8_lossy(&want))),
        Err(e) => Some(format!("search failed: {}", e)),
    }
}

fn report(pi: usize, template: &[u8], input: &[u8], mode: u32, what: &str) {
    println!("FAILING CASE replace pattern={:?} template={:?} input={:?} mode={}: {}",
        PATTERNS[pi], String::from_utf8_lossy(template), String::from_utf8_lossy(input),
        ["plain", "only-matching", "multi-line"][mode as usize], what);
    println!("VERIF_REPLAY_PATTERN={} VERIF_REPLAY_TEMPLATE={} VERIF_REPLAY_INPUT={} VERIF_REPLAY_MODE={}",
        pi, if template.is_empty() { "-".to_string() } else { hex(template) },
        if input.is_empty() { "-".to_string() } else { hex(input) }, mode);
}

fn main() {
    if let Ok(p) = std::env::var("VERIF_REPLAY_PATTERN") {
        let pi: usize = p.parse().unwrap();
        let t = unhex(&std::env::var("VERIF_REPLAY_TEMPLATE").unwrap());
        let i = unhex(&std::env::var("VERIF_REPLAY_INPUT").unwrap());
        let mode: u32 = std::env::var("VERIF_REPLAY_MODE").unwrap().parse().unwrap();
        let re = regex::bytes::RegexBuilder::new(PATTERNS[pi]).multi_line(true).build().unwrap();
        match check(pi, &re, &t, &i, mode) {
            Some(w) => { report(pi, &t, &i, mode, &w); std::process::exit(1); }
            None => { println!("replayed case agrees"); return; }
        }
    }
    let maxlen: usize = std::env::var("VERIF_REPLACE_LEN").ok().and_then(|s| s.parse().ok()).unwrap_or(5);
    let t2 = words(2);
    let t3 = words(3);
    let ins = inputs(maxlen);
    eprintln!("replace: {} patterns x ({} templates x {} inputs + {} templates x short inputs) x 3 modes", PATTERNS.len(), t2.len(), ins.len(), t3.len());
    // work items: (pattern, mode, template index chunk)
    let items: Vec<(usize, u32)> = (0..PATTERNS.len()).flat_map(|p| (0..3u32).map(move |m| (p, m))).collect();
    let next = std::sync::atomic::AtomicUsize::new(0);
    let best: std::sync::Mutex<Option<(usize, usize, usize, u32, Vec<u8>, Vec<u8>, String)>> = std::sync::Mutex::new(None);
    let threads = std::thread::available_parallelism().map(|x| x.get()).unwrap_or(4).min(16);
    std::thread::scope(|s| {
        for _ in 0..threads {
            s.spawn(|| loop {
                let k = next.fetch_add(1, std::sync::atomic::Ordering::SeqCst);
                if k >= items.len() { break; }
                let (pi, mode) = items[k];
                let re = regex::bytes::RegexBuilder::new(PATTERNS[pi]).multi_line(true).build().unwrap();
                let mut found = None;
                'outer: for (ti, t) in t3.iter().enumerate() {
                    let short_only = !t2.contains(t);
                    for (ii, inp) in ins.iter().enumerate() {
                        if short_only && inp.len() > 3 { continue; }
                        if let Some(w) = check(pi, &re, t.as_bytes(), inp, mode) {
                            if std::env::var("VERIF_REPLACE_ALL").is_ok() {
                                // survey mode (manual): list every disagreement instead of stopping at the first
                                println!("ALL pattern={:?} template={:?} input={:?} mode={} {}", PATTERNS[pi], t, String::from_utf8_lossy(inp), mode, w);
                                continue;
                            }
                            found = Some((k, ti, ii, mode, t.as_bytes().to_vec(), inp.clone(), w));
                            break 'outer;
                        }
                    }
                }
                if let Some(f) = found {
                    let mut b = best.lock().unwrap();
                    if b.as_ref().map_or(true, |o| (f.0, f.1, f.2) < (o.0, o.1, o.2)) { *b = Some(f); }
                }
            });
        }
    });
    match best.into_inner().unwrap() {
        Some((k, _, _, mode, t, i, w)) => { report(items[k].0, &t, &i, mode, &w); std::process::exit(1); }
        None => println!("replace twin len<={}: all cases agree", maxlen),
    }
}
