// `use` declarations of crates/searcher/src/searcher/mod.rs that the extracted items need
use std::cmp;
use crate::grep_matcher::{LineTerminator, Match, Matcher};
use crate::line_buffer;
use crate::line_buffer::{BufferAllocation, LineBuffer, LineBufferBuilder, DEFAULT_BUFFER_CAPACITY};
