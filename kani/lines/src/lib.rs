//! C01/C03/C13 twins: the real crates/searcher/src/lines.rs (included textually) against executable
//! forms of the spec functions used by the Verus contracts (contracts/common/spec_lines.rs).
//! These harnesses are bounded; they give concrete counterexamples (replayed natively) when a Verus
//! obligation about these functions fails or an anchor of its proof is lost.
#![allow(dead_code, unused_imports)]
#[path = "@REPO@/crates/searcher/src/lines.rs"]
mod lines;

mod twin {
    use crate::lines::*;
    use grep_matcher::{LineTerminator, Match};

    // ---- executable spec functions
    pub(crate) fn line_start_of(s: &[u8], t: u8, i: usize) -> usize {
        let mut k = i;
        while k > 0 && s[k - 1] != t { k -= 1; }
        k
    }
    pub(crate) fn line_end_from(s: &[u8], t: u8, i: usize) -> usize {
        let mut k = i;
        while k < s.len() {
            if s[k] == t { return k + 1; }
            k += 1;
        }
        s.len()
    }
    pub(crate) fn count_terms(s: &[u8], t: u8, lo: usize, hi: usize) -> usize {
        let mut c = 0; let mut k = lo;
        while k < hi { if s[k] == t { c += 1; } k += 1; }
        c
    }
    pub(crate) fn locate_ok(s: &[u8], t: u8, a: usize, b: usize) -> bool {
        let r = locate(s, t, Match::new(a, b));
        let ls = line_start_of(s, t, a);
        let le = if b > ls && s[b - 1] == t { b } else { line_end_from(s, t, b) };
        r.start() == ls && r.end() == le
    }
    pub(crate) fn preceding_ok(s: &[u8], t: u8, pos: usize, count: usize) -> bool {
        // preceding_by_pos is private to lines.rs; `preceding(bytes, t, count)` is preceding_by_pos at pos = len
        let s = &s[..pos];
        let r = preceding(s, t, count);
        let p = if pos > 0 && s[pos - 1] == t { pos - 1 } else { pos };
        let total = count_terms(s, t, 0, p);
        r <= p && (r == 0 || s[r - 1] == t) && count_terms(s, t, r, p) == core::cmp::min(count, total)
    }
    pub(crate) fn strip_ok(s: &[u8], crlf: bool, t: u8) -> bool {
        // C01: "the line's content with its terminator removed": a line ends at the terminator byte (`\n` for
        // CRLF); with CRLF the `\r` before it is optional and belongs to the terminator when present
        let lt = if crlf { LineTerminator::crlf() } else { LineTerminator::byte(t) };
        let r = without_terminator(s, lt);
        let tb = if crlf { b'\n' } else { t };
        if !s.is_empty() && s[s.len() - 1] == tb {
            let l1 = &s[..s.len() - 1];
            if crlf && !l1.is_empty() && l1[l1.len() - 1] == b'\r' { r == &l1[..l1.len() - 1] } else { r == l1 }
        } else {
            r == s
        }
    }
    pub(crate) fn stepper_ok(s: &[u8], t: u8, start: usize, end: usize) -> bool {
        // the stepper yields exactly the lines of s[start..end], in order, covering the range
        let mut st = LineStep::new(t, start, end);
        let mut pos = start;
        let mut guard = 0;
        while let Some(m) = st.next_match(s) {
            if m.start() != pos || m.end() <= m.start() || m.end() > end { return false; }
            if count_terms(s, t, m.start(), m.end() - 1) != 0 { return false; }
            if !(s[m.end() - 1] == t || m.end() == end) { return false; }
            pos = m.end();
            guard += 1;
            if guard > 8 { return false; }
        }
        pos == end
    }
    pub(crate) fn count_ok(s: &[u8], t: u8) -> bool {
        count(s, t) as usize == count_terms(s, t, 0, s.len())
    }

    #[cfg(kani)]
    mod proofs {
        use super::*;
        const N: usize = 5;
        fn input() -> ([u8; N], usize, u8) {
            let b: [u8; N] = kani::any();
            let n: usize = kani::any();
            kani::assume(n <= N);
            (b, n, kani::any())
        }
        #[kani::proof] #[kani::unwind(8)]
        fn locate_matches_spec_len5() {
            let (b, n, t) = input();
            let x: usize = kani::any(); let y: usize = kani::any();
            kani::assume(x <= y && y <= n);
            assert!(locate_ok(&b[..n], t, x, y));
        }
        #[kani::proof] #[kani::unwind(8)]
        fn preceding_matches_spec_len5() {
            let (b, n, t) = input();
            let pos: usize = kani::any(); let c: usize = kani::any();
            kani::assume(pos <= n && c <= 3);
            assert!(preceding_ok(&b[..n], t, pos, c));
        }
        #[kani::proof] #[kani::unwind(8)]
        fn without_terminator_matches_spec_len5() {
            let (b, n, t) = input();
            assert!(strip_ok(&b[..n], kani::any(), t));
        }
        #[kani::proof] #[kani::unwind(10)]
        fn line_step_yields_the_lines_len5() {
            let (b, n, t) = input();
            let x: usize = kani::any(); let y: usize = kani::any();
            kani::assume(x <= y && y <= n);
            assert!(stepper_ok(&b[..n], t, x, y));
        }
        /// LineTerminator::is_suffix (grep-matcher, used by the printers to decide whether a printed line
        /// still needs a terminator): "true iff the slice ends with this line terminator; for CRLF only the
        /// last byte is checked against `\n`" -- every terminator, every slice of up to 3 bytes
        #[kani::proof] #[kani::unwind(6)]
        fn line_terminator_is_suffix_matches_doc_len3() {
            let b: [u8; 3] = kani::any();
            let n: usize = kani::any();
            kani::assume(n <= 3);
            let crlf: bool = kani::any();
            let t: u8 = kani::any();
            let lt = if crlf { LineTerminator::crlf() } else { LineTerminator::byte(t) };
            let want = n > 0 && b[n - 1] == (if crlf { b'\n' } else { t });
            assert!(lt.is_suffix(&b[..n]) == want);
        }
        #[kani::proof] #[kani::unwind(8)]
        fn count_matches_spec_len5() {
            let (b, n, t) = input();
            assert!(count_ok(&b[..n], t));
        }
    }

    #[cfg(test)]
    mod twin_tests {
        use super::*;
        fn env_usize(k: &str) -> usize { std::env::var(k).ok().and_then(|v| v.parse().ok()).unwrap_or(0) }
        #[test]
        fn smoke() {
            assert!(locate_ok(b"ab\ncd\n", b'\n', 4, 4));
            assert!(preceding_ok(b"ab\ncd\n", b'\n', 6, 1));
            assert!(strip_ok(b"ab\r\n", true, b'\n'));
            assert!(stepper_ok(b"ab\ncd", b'\n', 0, 5));
            assert!(count_ok(b"a\nb\n", b'\n'));
        }
        #[test]
        fn replay() {
            if let Ok(hex) = std::env::var("VERIF_REPLAY_HEX") {
                let s: Vec<u8> = (0..hex.len() / 2).map(|i| u8::from_str_radix(&hex[2 * i..2 * i + 2], 16).unwrap()).collect();
                let t = env_usize("VERIF_REPLAY_T") as u8;
                let (x, y) = (env_usize("VERIF_REPLAY_X"), env_usize("VERIF_REPLAY_Y"));
                match std::env::var("VERIF_REPLAY_FN").unwrap_or_default().as_str() {
                    "locate" => assert!(locate_ok(&s, t, x, y), "locate({:?}, {}, {}..{}) disagrees with its spec", s, t, x, y),
                    "preceding" => assert!(preceding_ok(&s, t, x, y), "preceding_by_pos({:?}, pos={}, {}, count={}) disagrees with its spec", s, x, t, y),
                    "strip" => assert!(strip_ok(&s, x != 0, t), "without_terminator({:?}, crlf={}, {}) disagrees with its spec", s, x != 0, t),
                    "stepper" => assert!(stepper_ok(&s, t, x, y), "LineStep over {:?}[{}..{}] (term {}) does not yield the lines", s, x, y, t),
                    "count" => assert!(count_ok(&s, t), "count({:?}, {}) disagrees with its spec", s, t),
                    _ => {}
                }
            }
        }
    }
}
