#!/bin/bash
# re-record trusted lists and verified-function baselines of every unit (run by hand after editing contracts)
cd /verif
for u in contracts/*/unit.json; do d=$(dirname $u); python3 tools/vrun.py $d --accept | tail -1; done
