//! C09: the real `DecimalFormatter` of crates/printer/src/util.rs (struct and impl cut out of the file
//! mechanically on every run into src/extracted.rs) against positional decimal notation.
#![allow(dead_code)]
include!("extracted.rs");

/// value denoted by an ASCII decimal string; None if not canonical (empty, non-digit, leading zero)
pub fn parse_dec(s: &[u8]) -> Option<u128> {
    if s.is_empty() || (s.len() > 1 && s[0] == b'0') {
        return None;
    }
    let mut v: u128 = 0;
    let mut i = 0;
    while i < s.len() {
        if s[i] < b'0' || s[i] > b'9' {
            return None;
        }
        v = v * 10 + (s[i] - b'0') as u128;
        i += 1;
    }
    Some(v)
}

pub fn renders(n: u64) -> bool {
    let f = DecimalFormatter::new(n);
    parse_dec(f.as_bytes()) == Some(n as u128)
}

#[cfg(kani)]
mod proofs {
    use super::*;
    /// sparse large values a*10^18 + b*10^9 + c with small a, b, c (long runs of zero digits, 10..20 digits)
    #[kani::proof]
    #[kani::unwind(22)]
    fn decimal_formatter_sparse_large() {
        let a: u64 = kani::any();
        let b: u64 = kani::any();
        let c: u64 = kani::any();
        kani::assume(a < 18 && b < 256 && c < 256);
        let n = a * 1_000_000_000_000_000_000 + b * 1_000_000_000 + c;
        assert!(renders(n));
    }
    /// every value below 10^6 (bounded, fast): counterexample generator
    #[kani::proof]
    #[kani::unwind(22)]
    fn decimal_formatter_below_1e6() {
        let n: u64 = kani::any();
        kani::assume(n < 1_000_000);
        assert!(renders(n));
    }
}

#[cfg(test)]
mod tests {
    use super::*;
    #[test]
    fn smoke() {
        assert!(renders(0));
        assert!(renders(10));
        assert!(renders(u64::MAX));
        assert!(renders(1_000_000_000));
    }
    #[test]
    fn replay() {
        if let (Ok(a), Ok(b), Ok(c)) = (std::env::var("VERIF_REPLAY_A"), std::env::var("VERIF_REPLAY_B"), std::env::var("VERIF_REPLAY_C")) {
            let n: u64 = a.parse::<u64>().unwrap() * 1_000_000_000_000_000_000 + b.parse::<u64>().unwrap() * 1_000_000_000 + c.parse::<u64>().unwrap();
            assert!(renders(n), "DecimalFormatter::new({}) renders {:?}", n, String::from_utf8_lossy(DecimalFormatter::new(n).as_bytes()));
        }
        if let Ok(v) = std::env::var("VERIF_REPLAY_N") {
            let n: u64 = v.parse().unwrap();
            assert!(renders(n), "DecimalFormatter::new({}) renders {:?}", n, String::from_utf8_lossy(DecimalFormatter::new(n).as_bytes()));
        }
    }
}
