#!/usr/bin/env python3
"""stability.py <unit> [seeds...]: re-verify a unit under several Z3 random seeds and report every function
whose result is not stable (a proof that only passes for some seeds is a future false alarm)."""
import json, os, sys
sys.path.insert(0, os.path.dirname(os.path.abspath(__file__)))
import extract, vrun
def main():
    unit = sys.argv[1]
    seeds = [int(x) for x in sys.argv[2:]] or [1, 2, 3, 4]
    d = os.path.join(vrun.VERIF, 'contracts', unit)
    out = os.path.join(vrun.BUILD, 'verus', 'stab.%s.%d' % (unit, os.getpid()))
    os.makedirs(out, exist_ok=True)
    path = os.path.join(out, unit + '.rs')
    extract.assemble(d, path)
    bad = {}
    for s in seeds:
        js, diags, wall, cmd, err = vrun.run_verus(path, 100, ['--smt-option', 'smt.random_seed=%d' % s, '--smt-option', 'sat.random_seed=%d' % s])
        fns = vrun.functions_of(js, unit)
        failed = sorted(f['name'] for f in fns if not f['success'])
        slow = sorted(((f['time_us'] // 1000, f['name']) for f in fns if f['time_us'] > 5_000_000), reverse=True)
        print('seed %d: %d functions, failed: %s, slow(ms): %s, wall %.0fs' % (s, len(fns), failed, slow[:5], wall))
        for f in failed:
            bad.setdefault(f, []).append(s)
        sys.stdout.flush()
    print('UNSTABLE/FAILING:', json.dumps(bad))
if __name__ == '__main__':
    main()
