// ===== SPEC: spec accessors for lines::LineStep's private fields =====
impl LineStep {
    pub closed spec fn t(&self) -> u8 { self.line_term }
    pub closed spec fn p(&self) -> int { self.pos as int }
    pub closed spec fn e(&self) -> int { self.end as int }
}
