// ===== TRUSTED (T-Read): std::io::Read::read -- "If the return value is Ok(n) then 0 <= n <= buf.len()";
// the slice keeps its length.  Which bytes arrive, and how many (the fragmentation), is unconstrained:
// the contracts of LineBuffer::fill hold for EVERY such reader.  Not assumed: that EOF is sticky.
#[verifier::external_trait_specification]
pub trait ExRead {
    type ExternalTraitSpecificationFor: std::io::Read;
    fn read(&mut self, buf: &mut [u8]) -> (r: std::io::Result<usize>)
        ensures
            final(buf)@.len() == old(buf)@.len(),
            r matches Ok(n) ==> n <= old(buf)@.len(),
    ;
}
