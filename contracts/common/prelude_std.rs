// ===== TRUSTED: assumed specifications of std (T-std) =====
pub assume_specification<T>[ std::slice::from_ref ](x: &T) -> (r: &[T])
    ensures r@ == seq![*x],
;

pub assume_specification<T, U, F>[ std::option::Option::<T>::map_or ](o: Option<T>, d: U, f: F) -> (r: U)
    where F: FnOnce(T,) -> U + std::marker::Destruct, U: std::marker::Destruct,
    requires o is Some ==> f.requires((o->Some_0,)),
    ensures
        o is None ==> r == d,
        o is Some ==> f.ensures((o->Some_0,), r),
;
